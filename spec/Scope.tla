-------------------------------- MODULE Scope --------------------------------
(***************************************************************************)
(* C04 - names in expressions resolve to the object Python scoping binds   *)
(* them to.                                                                *)
(*                                                                         *)
(* Shape A (algorithm vs reference).  A *case* is a package program over   *)
(* the fixed skeleton                                                      *)
(*   pkg/__init__  pkg/a  pkg/sub/__init__  pkg/sub/b  pkg/sub/deep/__init__  q *)
(* whose *site module* M has the shape                                     *)
(*      [module-level binding of n]                                        *)
(*      class A:                                                           *)
(*          [A-level binding of n]                                         *)
(*          class B:                                                       *)
(*              [B-level binding of n]                                     *)
(*              def __init__(self[, n]): [local import of n]; <sites>      *)
(*              def m(self[, n]): <site>                                   *)
(*              <sites>                                                    *)
(*          def __init__ ... ; def m ... ; <sites>                         *)
(*      <sites>                                                            *)
(* (+ bindings of n in the __init__ of M's ancestor packages), one focus   *)
(* name n, and one reference site scope S.  Every binding is one of        *)
(* {none, class/def/assignment, annotation-only or instance-attribute      *)
(* declaration, import statement in one of the forms of StmtOf}.           *)
(*                                                                         *)
(* Griffe side (transcription of the code):                                *)
(*   Visit            visit_import / visit_importfrom / relative_to_       *)
(*                    absolute / handle_attribute: the members dictionary  *)
(*                    of every scope object on the chain                   *)
(*   FunctionResolveParam, MemberHit, NoParent, ParentNameShortcut,        *)
(*   RecurseParent    one action per statement of Function.resolve /       *)
(*                    Object.resolve (models.py)                           *)
(*   ImplChain        ExprAttribute / ExprName.canonical_path              *)
(* Python side (reference):                                                *)
(*   PyChain/PyLevel  LOAD_NAME / LOAD_GLOBAL / LOAD_FAST rules: class     *)
(*                    body = own namespace then module globals; function   *)
(*                    = own locals then module globals (class scopes do    *)
(*                    not nest); binding time of a class name              *)
(*   PyResolveName    importlib._bootstrap._calc___package__ /             *)
(*                    _sanity_check / _resolve_name                        *)
(*   PyStmt           what an import statement binds, or why it raises     *)
(*                                                                         *)
(* Domains.  Relax is the set of relaxations of the *clean* domain that    *)
(* Init generates; Guard the set under which the invariants are asserted.  *)
(* clean  = every scope level that Griffe's walk visits but Python's       *)
(*          lookup does not (enclosing classes, pseudo-declarations, ...)  *)
(*          vice versa (parameters of non-__init__ methods) binds nothing. *)
(* Relax = Guard = {d} exhibits one recorded defect class each (TLC must   *)
(* report the invariant violated there).                                   *)
(***************************************************************************)
EXTENDS Integers, Sequences, FiniteSets, TLC, Json

CONSTANTS KindsM,  \* binding kinds enumerated at module level   (always contain "none")
          KindsC,  \* binding kinds enumerated at class level (A and B)
          ScopeMods, \* site modules of the scope family (subset of SiteMods)
          Names,   \* focus names of the scope family
          RelNames, \* names imported by the statements of the rel family (subset of ImpNames)
          RelMods,  \* site modules of the rel family (subset of Mods)
          MaxUp,    \* how many ancestor packages may bind the name (1 or 2)
          KindsI,   \* what the base class Z of A and B declares under the name ("none", "l_dclass", "l_dfunc", "l_dattr": Z is
                    \* defined in M; "i_dclass": Z is imported from another module of the package)
          Fams,    \* subset of {"scope", "rel"}
          Relax,   \* relaxations generated          (subset of AllRelax)
          Guard,   \* relaxations under which the property invariants are asserted
          StubModes, \* how the site module of the rel family may be stored: subset of {"none", "only", "inline"}
          RootKinds, \* roots of attribute accesses that are not names: subset of {"call", "subscript", "str"}
          Emit     \* print one CASE line per finished case

Nil == "nil"
None == "none"
AllRelax == {"nested", "method", "shortcut", "mparam", "decl", "eloc"}

\* ---- the skeleton ------------------------------------------------------------------------------
Mods == {"P", "PA", "PS", "PSB", "PSD", "Q"}       \* PSD = pkg/sub/deep/__init__.py: site module of the rel family only
SiteMods == {"P", "PA", "PS", "PSB"}
MPath == [P |-> <<"pkg">>, PA |-> <<"pkg", "a">>, PS |-> <<"pkg", "sub">>, PSB |-> <<"pkg", "sub", "b">>,
          PSD |-> <<"pkg", "sub", "deep">>, Q |-> <<"q">>]
MParent == [P |-> Nil, PA |-> "P", PS |-> "P", PSB |-> "PS", PSD |-> "PS", Q |-> Nil]
IsInit == [P |-> TRUE, PA |-> FALSE, PS |-> TRUE, PSB |-> FALSE, PSD |-> TRUE, Q |-> FALSE]       \* Module.is_init_module
Submods == [P |-> {"a", "sub"}, PA |-> {}, PS |-> {"b", "deep"}, PSB |-> {}, PSD |-> {}, Q |-> {}]
Anc1(m) == MParent[m]
Anc2(m) == IF MParent[m] = Nil THEN Nil ELSE MParent[MParent[m]]
AncSub(m) == (IF Anc1(m) = Nil THEN {} ELSE Submods[Anc1(m)]) \cup (IF Anc2(m) = Nil THEN {} ELSE Submods[Anc2(m)])
ModByPath(p) == IF \E m \in Mods : MPath[m] = p THEN CHOOSE m \in Mods : MPath[m] = p ELSE Nil
Last(s) == s[Len(s)]
Front(s) == SubSeq(s, 1, Len(s) - 1)

\* names
Generic == {"x"}
ModNames == {"q", "pkg"}        \* names that only `import q` / `import pkg.sub.b` bind
SubNames == {"a", "sub", "b"}   \* module names: never bound explicitly (scope family).  They are submodule names of some package
                                \* and - `b` in pkg/sub/b.py, `sub` in pkg/sub/__init__.py - the enclosing module's OWN name
                                \* (parent-name shortcut: `name == self.parent.name and not self.parent.is_module`)
QNames == {"x", "A", "B"}       \* classes the library module q defines besides K

\* binding kinds
DefKinds == {"dclass", "dfunc", "dattr", "skel"}       \* class n / def n / n = ... / the skeleton's own class A or B
PseudoKinds == {"iattr", "annonly"}                    \* self.n = ... in __init__ / `n: int`: Griffe members, no Python binding in that scope
ImpKinds == {"i_mod", "i_rebind", "i_modas", "i_from", "i_fromas", "i_frommod", "i_rel1", "st"}
Scopes == {"mod", "A", "B", "A.init", "A.m", "B.init", "B.m"}
InitScopes == {"A.init", "B.init"}
MScopes == {"A.m", "B.m"}

VARIABLES fam, M, n, up1, up2, modb, ab, bb, fnb, inh, stub, st, S, \* the case
          pc, cur, mem, impl, binder, py, pyl, just            \* the run
casevars == <<fam, M, n, up1, up2, modb, ab, bb, fnb, inh, stub, st, S>>
vars == <<casevars, pc, cur, mem, impl, binder, py, pyl, just>>

\* The file of a module.  IsInit[m] says the module is the init module of a package directory; `stub` says how the SITE module
\* is stored: "none" = `x.py`; "only" = `x.pyi` alone (stubs-only package); "inline" = `x.py` and `x.pyi` side by side (the loader
\* visits both and merges the stub into the concrete module: annotations then come from the stub's objects).
FileStem(m) == IF IsInit[m] THEN "__init__" ELSE Last(MPath[m])
FileSuffixes(m) == IF m = M /\ stub = "only" THEN {".pyi"} ELSE IF m = M /\ stub = "inline" THEN {".py", ".pyi"} ELSE {".py"}
IsInitModule(m) == FileStem(m) = "__init__"      \* Module.is_init_module: filepath.name.split(".", 1)[0] == "__init__" - any suffix
IsPackage(m) == MParent[m] = Nil /\ IsInitModule(m)                                    \* Module.is_package
IsSubpackage(m) == MParent[m] # Nil /\ IsInitModule(m)                                 \* Module.is_subpackage

NoStmt == [stmt |-> Nil, level |-> 0, mod |-> <<>>, name |-> Nil, asname |-> Nil]
From(l, mp, nm, as) == [stmt |-> "from", level |-> l, mod |-> mp, name |-> nm, asname |-> as]
Import(mp, as) == [stmt |-> "import", level |-> 0, mod |-> mp, name |-> Nil, asname |-> as]

\* ---- scope objects of the Griffe tree on the walk ------------------------------------------------
AllObjs == {"fA", "mA", "fB", "mB", "B", "A", "M", "U1", "U2"}
ChainObjs == {"fA", "mA", "fB", "mB", "B", "A", "M"} \cup (IF Anc1(M) = Nil THEN {} ELSE {"U1"}) \cup (IF Anc2(M) = Nil THEN {} ELSE {"U2"})
ModOfObj(o) == IF o = "M" THEN M ELSE IF o = "U1" THEN Anc1(M) ELSE Anc2(M)
ObjParent(o) ==
  CASE o \in {"fA", "mA"} -> "A"
    [] o \in {"fB", "mB"} -> "B"
    [] o = "B" -> "A"
    [] o = "A" -> "M"
    [] o = "M" -> IF Anc1(M) = Nil THEN Nil ELSE "U1"
    [] o = "U1" -> IF Anc2(M) = Nil THEN Nil ELSE "U2"
    [] OTHER -> Nil
IsModuleObj(o) == o \in {"M", "U1", "U2"}
ObjName(o) ==
  CASE o \in {"fA", "fB"} -> "__init__"
    [] o \in {"mA", "mB"} -> "m"
    [] o = "A" -> "A"
    [] o = "B" -> "B"
    [] OTHER -> Last(MPath[ModOfObj(o)])
ObjPath(o) ==
  CASE o = "A" -> MPath[M] \o <<"A">>
    [] o = "B" -> MPath[M] \o <<"A", "B">>
    [] o = "fA" -> MPath[M] \o <<"A", "__init__">>
    [] o = "mA" -> MPath[M] \o <<"A", "m">>
    [] o = "fB" -> MPath[M] \o <<"A", "B", "__init__">>
    [] o = "mB" -> MPath[M] \o <<"A", "B", "m">>
    [] OTHER -> MPath[ModOfObj(o)]
StartObj(s) ==
  CASE s = "mod" -> "M" [] s = "A" -> "A" [] s = "B" -> "B"
    [] s = "A.init" -> "fA" [] s = "A.m" -> "mA" [] s = "B.init" -> "fB" [] s = "B.m" -> "mB"

\* ---- import statements of the binding kinds -----------------------------------------------------
\* Each level imports from a different library module so that a hit at the wrong level is visible.
LibOrder == <<"Q", "PSB", "PA", "PS", "P">>
Others == SelectSeq(LibOrder, LAMBDA m : m # M)
LibIdx == [M |-> 1, A |-> 2, B |-> 3, fA |-> 4, fB |-> 4]
LibOf(o) == Others[LibIdx[o]]
\* `import pkg.a` / `import pkg.sub.b`: a module that is neither M nor one of its ancestors (pkg.sub is not yet an
\* attribute of pkg while pkg/sub/__init__.py runs)
ImportPkgMod == IF M \in {"PSB", "PS"} THEN <<"pkg", "a">> ELSE <<"pkg", "sub", "b">>
StmtOf(k, o) ==
  CASE k = "i_fromas" -> From(0, MPath[LibOf(o)], "K", n)          \* from lib import K as n
    [] k = "i_modas" -> Import(MPath[LibOf(o)], n)                 \* import lib as n   (lib dotted or not)
    [] k = "i_from" -> From(0, <<"q">>, n, Nil)                    \* from q import n
    [] k = "i_frommod" -> IF M = "PSB" THEN From(0, <<"pkg">>, "a", n) ELSE From(0, <<"pkg", "sub">>, "b", n)
    [] k = "i_rel1" -> From(1, <<>>, "K", n)                       \* from . import K as n
    [] k \in {"i_mod", "i_rebind"} -> Import(IF n = "q" THEN <<"q">> ELSE ImportPkgMod, Nil)   \* import q / import pkg.sub.b
    [] k = "st" -> st
    [] OTHER -> NoStmt
\* "i_rebind": two statements in the same scope bind the name, the later one wins (`from lib import K as q` then `import q`;
\* `from lib import K as pkg` then `import pkg.sub.b`).  PreStmtOf is the earlier statement.
PreStmtOf(k, o) == IF k = "i_rebind" THEN From(0, MPath[LibOf(o)], "K", n) ELSE NoStmt
LimpKind == IF fam = "rel" THEN "st" ELSE IF n \in ModNames THEN "i_mod" ELSE "i_fromas"
KindAt(o) == CASE o = "M" -> modb [] o = "A" -> ab [] o = "B" -> bb
               [] o \in {"fA", "fB"} -> (IF fnb = "limp" THEN LimpKind ELSE None) [] OTHER -> None

\* ---- Griffe: agents/nodes/imports.py relative_to_absolute ----------------------------------------
RECURSIVE Climb(_, _)
Climb(m, l) == IF l > 0 /\ MParent[m] # Nil THEN Climb(MParent[m], l - 1) ELSE m    \* while level > 0 and parent is not None
RelToAbs(s, m) ==
  LET l1 == IF (s.level > 0 /\ IsPackage(m)) \/ IsSubpackage(m) THEN s.level - 1 ELSE s.level
      cm == Climb(m, l1)
      base == IF s.level > 0 THEN MPath[cm] ELSE <<>>
  IN  base \o s.mod \o <<s.name>>

\* ---- Griffe: visitor.py visit_import / visit_importfrom (current = object o, current.module = M) --
GVisit(s, o) ==
  IF s.stmt = "import" THEN
    LET ap == IF s.asname # Nil THEN s.mod ELSE <<s.mod[1]>>
        an == IF s.asname # Nil THEN s.asname ELSE ap[1]
    IN  [name |-> an, target |-> ap, created |-> TRUE]
  ELSE IF s.mod = <<>> /\ s.level = 1 /\ s.asname = Nil /\ IsModuleObj(o) /\ IsInitModule(M) THEN      \* ... and self.current.is_module
    [name |-> s.name, target |-> <<>>, created |-> FALSE]                  \* "Special case": continue
  ELSE
    LET ap == RelToAbs(s, M)
        an == IF s.asname # Nil THEN s.asname ELSE s.name
    IN  [name |-> an, target |-> ap, created |-> ap # (ObjPath(o) \o <<an>>)]   \* no alias pointing to itself

NoMem == [has |-> FALSE, kind |-> None, path |-> <<>>]
FromKind(k, o) ==
  IF k = None THEN NoMem
  ELSE IF k \in ImpKinds THEN
    \* statements are visited in order; set_member replaces the member an earlier statement created under the same name
    LET v == GVisit(StmtOf(k, o), o)
        w == GVisit(PreStmtOf(k, o), o)
    IN  IF v.created /\ v.name = n THEN [has |-> TRUE, kind |-> "alias", path |-> v.target]
        ELSE IF PreStmtOf(k, o).stmt # Nil /\ w.created /\ w.name = n THEN [has |-> TRUE, kind |-> "alias", path |-> w.target]
        ELSE NoMem
  ELSE [has |-> TRUE, kind |-> k, path |-> ObjPath(o) \o <<n>>]
ModuleMember(m, explicit) ==            \* members of a module object: what its body binds, the library class K, its submodules
  IF explicit.has THEN explicit
  ELSE IF n = "K" THEN [has |-> TRUE, kind |-> "dclass", path |-> MPath[m] \o <<"K">>]
  ELSE IF n \in Submods[m] THEN [has |-> TRUE, kind |-> "submodule", path |-> MPath[m] \o <<n>>]
  ELSE NoMem
\* Classes A and B both derive from a class Z (statically resolvable: defined in M or imported from the package) which may
\* declare n.  Object.resolve consults `self.members` - the class's OWN members - never `all_members`: what Z declares is
\* part of the tree (Inherited) but of no scope, neither Griffe's nor Python's.
ZMod == IF inh = "i_dclass" THEN (IF M = "PA" THEN "PSB" ELSE "PA") ELSE M
Inherited(o) == IF o \in {"A", "B"} /\ inh # None THEN [has |-> TRUE, kind |-> inh, path |-> MPath[ZMod] \o <<"Z", n>>] ELSE NoMem
MemberAt(o) ==
  CASE o \in {"fA", "fB"} -> FromKind(KindAt(o), o)      \* visit_import with current = the __init__ function
    [] o \in {"mA", "mB"} -> NoMem                        \* bodies of other functions are not visited
    [] o \in {"A", "B"} -> FromKind(KindAt(o), o)
    [] o = "M" -> ModuleMember(M, FromKind(modb, "M"))
    [] o = "U1" -> ModuleMember(Anc1(M), FromKind(up1, "U1"))
    [] o = "U2" -> ModuleMember(Anc2(M), FromKind(up2, "U2"))

\* ---- Python: importlib._bootstrap ---------------------------------------------------------------
Rej(w) == [ok |-> FALSE, why |-> w, name |-> Nil, obj |-> <<>>]
PyResolveName(m, level, mp) ==
  LET package == IF IsInit[m] THEN MPath[m] ELSE IF MParent[m] = Nil THEN <<>> ELSE MPath[MParent[m]]   \* __package__
  IN  IF level = 0 THEN [ok |-> TRUE, why |-> "", p |-> mp]
      ELSE IF package = <<>> THEN [ok |-> FALSE, why |-> "no-parent-package", p |-> <<>>]
      ELSE IF Len(package) < level THEN [ok |-> FALSE, why |-> "beyond-top-level", p |-> <<>>]     \* len(bits) < level
      ELSE [ok |-> TRUE, why |-> "", p |-> SubSeq(package, 1, Len(package) - (level - 1)) \o mp]
HasAttr(tm, nm) == nm = "K" \/ (tm = "Q" /\ M # "Q" /\ nm \in QNames) \/ nm \in Submods[tm]
PyStmt(s) ==
  IF s.stmt = "import" THEN
    IF ModByPath(s.mod) = Nil THEN Rej("no-module")
    ELSE [ok |-> TRUE, why |-> "", name |-> IF s.asname # Nil THEN s.asname ELSE s.mod[1],
          obj |-> IF s.asname # Nil THEN s.mod ELSE <<s.mod[1]>>]
  ELSE
    LET r == PyResolveName(M, s.level, s.mod)
    IN  IF ~r.ok THEN Rej(r.why)
        ELSE LET tm == ModByPath(r.p)
             IN  IF tm = Nil THEN Rej("no-module")
                 ELSE IF ~HasAttr(tm, s.name) THEN Rej("no-attribute")
                 ELSE [ok |-> TRUE, why |-> "", name |-> IF s.asname # Nil THEN s.asname ELSE s.name, obj |-> r.p \o <<s.name>>]

\* ---- Python: which object the name denotes at the site -----------------------------------------
PyChain(s) ==
  CASE s = "mod" -> <<"M">> [] s = "A" -> <<"A", "M">> [] s = "B" -> <<"B", "M">>
    [] s = "A.init" -> <<"fA", "M">> [] s = "A.m" -> <<"mA", "M">>
    [] s = "B.init" -> <<"fB", "M">> [] s = "B.m" -> <<"mB", "M">>
PyNone == [b |-> "none", p |-> <<>>]
PyKind(k, o) ==
  IF k = None \/ k \in PseudoKinds THEN PyNone
  ELSE IF k \in ImpKinds THEN
    LET r == PyStmt(StmtOf(k, o))           \* the later statement rebinds the name
        q == PyStmt(PreStmtOf(k, o))
    IN  IF r.ok /\ r.name = n THEN [b |-> "obj", p |-> r.obj]
        ELSE IF PreStmtOf(k, o).stmt # Nil /\ q.ok /\ q.name = n THEN [b |-> "obj", p |-> q.obj]
        ELSE PyNone
  ELSE [b |-> "obj", p |-> ObjPath(o) \o <<n>>]
\* late = FALSE: when the site is executed (an annotation / value / base / decorator in a class body runs while the class
\* is being built); late = TRUE: when a stringized annotation is evaluated afterwards (inspect.get_annotations(eval_str=True):
\* class namespace, then module globals - every class statement has completed)
PyLevel(l, late) ==
  CASE l \in {"fA", "fB"} -> IF fnb = "param" THEN [b |-> "param", p |-> ObjPath(ObjParent(l))] ELSE PyKind(KindAt(l), l)
    [] l \in {"mA", "mB"} -> IF fnb = "param" THEN [b |-> "param", p |-> ObjPath(ObjParent(l))] ELSE PyNone
    [] l \in {"A", "B"} -> PyKind(KindAt(l), l)
    [] l = "M" -> IF modb = None /\ n = "K" THEN [b |-> "obj", p |-> MPath[M] \o <<"K">>]
                  ELSE IF modb = "skel" /\ S \in {"A", "B"} /\ ~late THEN PyNone     \* class A is bound only after its body has run
                  ELSE PyKind(modb, "M")
PyLabel(l, r) == IF l \in {"fA", "fB", "mA", "mB"} THEN (IF r.b = "param" THEN "fn-param" ELSE "fn-local")
                 ELSE IF l = "M" THEN "module" ELSE "own-class"
RECURSIVE PyFirst(_, _)
PyFirst(ch, late) ==
  IF ch = <<>> THEN [b |-> "unbound", p |-> <<>>, lvl |-> "unbound"]
  ELSE LET r == PyLevel(Head(ch), late)
       IN  IF r.b # "none" THEN [b |-> r.b, p |-> r.p, lvl |-> PyLabel(Head(ch), r)] ELSE PyFirst(Tail(ch), late)

Exempt == fam = "rel" /\ ~PyStmt(st).ok       \* CPython rejects the statement: only totality is demanded

\* ---- case space ---------------------------------------------------------------------------------
LevelKinds(l) ==
  IF n \in SubNames THEN {None}
  ELSE IF n \in ModNames THEN {None, "i_mod", "i_rebind"}
  ELSE {k \in (IF l = "M" THEN KindsM ELSE KindsC) : k # "i_mod" /\ k # "st" /\ (l = "M" => k # "iattr") /\ (k = "i_from" => n \in QNames)}
UpNames == Generic \cup {"A", "B"}

RealBind(k) == k \notin ({None} \cup PseudoKinds)
FnStops == S \in InitScopes /\ fnb # None
InDom(R) ==
  /\ ("nested" \notin R) => (S = "B" => (ab = None \/ RealBind(bb)))
  /\ ("method" \notin R) => /\ (S \in {"A.init", "A.m"} /\ ~FnStops) => ab = None
                            /\ (S \in {"B.init", "B.m"} /\ ~FnStops) => (bb = None /\ (ab = None \/ n = "B"))
  /\ ("shortcut" \notin R) => ((S \in {"B.init", "B.m"} /\ ~FnStops) => n # "B")
  /\ ("mparam" \notin R) => (S \in MScopes => fnb # "param")
  /\ ("decl" \notin R) => ({modb, ab, bb} \cap PseudoKinds = {})

ScopeInit ==
  /\ "scope" \in Fams /\ fam = "scope"
  /\ M \in ScopeMods /\ n \in Names /\ st = NoStmt /\ stub = "none"
  /\ modb \in (IF n = "A" THEN {"skel"} ELSE LevelKinds("M"))
  /\ ab \in (IF n = "B" THEN {"skel"} ELSE LevelKinds("A"))
  /\ bb \in LevelKinds("B")
  /\ fnb \in (IF n \in SubNames THEN {None, "param"} ELSE {None, "param", "limp"})
  /\ up1 \in (IF Anc1(M) # Nil /\ n \in UpNames THEN {None, "dclass"} ELSE {None})
  /\ up2 \in (IF Anc2(M) # Nil /\ n \in UpNames /\ MaxUp >= 2 THEN {None, "dclass"} ELSE {None})
  \* inherited members are orthogonal to the other levels: enumerated where nothing else varies
  /\ inh \in (IF n \in Generic \cup {"A", "B"} /\ up1 = None /\ up2 = None /\ fnb = None THEN KindsI ELSE {None})
  /\ S \in Scopes

AbsMods == {<<"pkg">>, <<"pkg", "a">>, <<"pkg", "sub">>, <<"pkg", "sub", "b">>, <<"q">>}
RelParts == {<<>>, <<"a">>, <<"sub">>, <<"b">>, <<"sub", "b">>}
ImpNames == {"K", "a", "sub", "b"}
RelStmts == {s \in [stmt : {"from"}, level : 0..3, mod : AbsMods \cup RelParts, name : RelNames, asname : {Nil, "r"}] :
                IF s.level = 0 THEN s.mod \in AbsMods ELSE s.mod \in RelParts}
RelInit ==        \* the same statement at module level, in class A and in A.__init__; the bound name is looked up from each
  /\ "rel" \in Fams /\ fam = "rel"
  /\ M \in RelMods /\ st \in RelStmts
  /\ n = (IF st.asname # Nil THEN st.asname ELSE st.name)
  /\ modb = (IF n = "K" THEN None ELSE "st")       \* the module already defines its own class K
  /\ ab = "st" /\ bb = None /\ fnb = "limp" /\ up1 = None /\ up2 = None /\ inh = None
  \* stub files: the relative imports `from .x import y as r` / `from ..x import y as r` of the init modules
  /\ stub \in (IF IsInit[M] /\ st.level \in 1..2 /\ st.asname = "r" THEN StubModes ELSE {"none"})
  /\ S \in (IF n = "K" THEN {"A", "A.init"} ELSE {"mod", "A", "A.init"})

Init ==
  /\ (ScopeInit \/ RelInit)
  /\ InDom(Relax)
  /\ pc = "case" /\ cur = Nil /\ mem = [o \in AllObjs |-> NoMem]
  /\ impl = [k |-> Nil, p |-> <<>>] /\ binder = Nil /\ just = {}
  /\ py = [b |-> Nil, p |-> <<>>, lvl |-> Nil] /\ pyl = [b |-> Nil, p |-> <<>>, lvl |-> Nil]

\* ---- the run -------------------------------------------------------------------------------------
Visit ==                      \* the visitor builds the tree (members of every scope object on the chain)
  /\ pc = "case"
  /\ mem' = [o \in AllObjs |-> IF o \in ChainObjs THEN MemberAt(o) ELSE NoMem]
  /\ cur' = StartObj(S) /\ pc' = "resolve"
  /\ UNCHANGED <<casevars, impl, binder, py, pyl, just>>

HitLabel(o) ==
  IF o \in {"fA", "fB", "mA", "mB"} THEN "fn-local"
  ELSE IF o \in {"A", "B"} THEN
    (IF o = StartObj(S) THEN (IF mem[o].kind \in PseudoKinds THEN "own-class-decl" ELSE "own-class") ELSE "enclosing-class")
  ELSE IF o = "M" THEN (IF mem[o].kind = "submodule" THEN "submodule" ELSE "module")
  ELSE "parent-package"

Finish(result, label) == impl' = result /\ binder' = label /\ pc' = "resolved" /\ UNCHANGED <<casevars, cur, mem, py, pyl, just>>

InitParam == cur \in {"fA", "fB"} /\ fnb = "param"      \* self.parent and self.name == "__init__" and name in self.parameters
FunctionResolveParam ==       \* Function.resolve: return f"{self.parent.path}({name})"
  /\ pc = "resolve" /\ InitParam
  /\ Finish([k |-> "param", p |-> ObjPath(ObjParent(cur))], "fn-param")
MemberHit ==                  \* Object.resolve: name in self.members -> target_path (alias) or path
  /\ pc = "resolve" /\ ~InitParam /\ mem[cur].has
  /\ Finish([k |-> "path", p |-> mem[cur].path], HitLabel(cur))
Outermost == ObjParent(cur) = Nil \/ IsModuleObj(cur)      \* self.parent is None or self.is_module
NoParent ==                   \* ... raise NameResolutionError (ExprName.canonical_path returns the name): a module is the
                              \* outermost scope, its parent package is not an enclosing scope
  /\ pc = "resolve" /\ ~InitParam /\ ~mem[cur].has /\ Outermost
  /\ Finish([k |-> "name", p |-> <<n>>], "none")
ShortcutCond == IF Outermost THEN FALSE ELSE n = ObjName(ObjParent(cur)) /\ ~IsModuleObj(ObjParent(cur))
ParentNameShortcut ==         \* name == self.parent.name and not self.parent.is_module: return self.parent.path
  /\ pc = "resolve" /\ ~InitParam /\ ~mem[cur].has /\ ~Outermost /\ ShortcutCond
  /\ Finish([k |-> "path", p |-> ObjPath(ObjParent(cur))], "parent-shortcut")
RecurseParent ==              \* return self.parent.resolve(name)
  /\ pc = "resolve" /\ ~InitParam /\ ~mem[cur].has /\ ~Outermost /\ ~ShortcutCond
  /\ cur' = ObjParent(cur)
  /\ UNCHANGED <<casevars, pc, mem, impl, binder, py, pyl, just>>

Range(s) == {s[i] : i \in 1..Len(s)}
PyLookup ==                   \* the reference: what CPython binds at the site
  /\ pc = "resolved"
  /\ py' = PyFirst(PyChain(S), FALSE)
  /\ pyl' = PyFirst(PyChain(S), TRUE)
  /\ just' = {mem[l].path : l \in {x \in Range(PyChain(S)) : mem[x].has}}
  /\ pc' = "done"
  /\ UNCHANGED <<casevars, cur, mem, impl, binder>>

Terminated == pc = "done" /\ UNCHANGED vars      \* so that deadlock checking flags a walk that gets stuck

Next == Visit \/ FunctionResolveParam \/ MemberHit \/ NoParent \/ ParentNameShortcut \/ RecurseParent \/ PyLookup \/ Terminated
Spec == Init /\ [][Next]_vars

\* ---- attribute chains (ExprAttribute / ExprName.canonical_path with an ExprName parent) ---------
IsModPath(p) == ModByPath(p) # Nil
Suffix ==            \* the attribute segments the sites append to the name: what exists below the object Python binds
  IF py.b # "obj" THEN <<>>
  ELSE IF n = "pkg" /\ py.p = <<"pkg">> THEN Tail(ImportPkgMod) \o <<"K", "N">>      \* import pkg.sub.b; pkg.sub.b.K.N
  ELSE IF IsModPath(py.p) THEN <<"K", "N">>
  ELSE IF Len(py.p) > 1 /\ Last(py.p) = "K" /\ IsModPath(Front(py.p)) THEN <<"N">>
  ELSE <<>>
RECURSIVE ImplChain(_)
ImplChain(c) ==      \* canonical_path of the c-th ExprName of the chain: f"{self.parent.canonical_path}.{self.name}"
  IF c = 0 THEN impl.p ELSE ImplChain(c - 1) \o <<Suffix[c]>>

\* ---- attributes of values (expressions.py _build_attribute) ------------------------------------
\* `<root>.n` where the root is not a name: the site is `_g().n`, `_L[0].n`, `"s".n`.  _build_attribute gives the trailing
\* ExprName the parent: the root ExprName (name root: ImplChain above), "str" (string constant), nothing otherwise.
\* ExprName.canonical_path: parent None -> the name; parent a str -> f"{parent}.{name}".  The scope of the site is never
\* consulted: an attribute of a runtime value is not a name reference (Python: LOAD_ATTR on the value).
BuildAttributeParent(rk) == IF rk = "str" THEN "str" ELSE Nil
ImplValueAttr(rk) == IF BuildAttributeParent(rk) = Nil THEN [k |-> "name", p |-> <<n>>]
                     ELSE [k |-> "path", p |-> <<BuildAttributeParent(rk), n>>]
\* reference: the attribute name of a value has no static binding -> unchanged; of a string literal: an attribute of builtins.str
RefValueAttr(rk) == IF rk = "str" THEN [k |-> "path", p |-> <<"str", n>>] ELSE [k |-> "name", p |-> <<n>>]
ValueAttributeUnchanged == (pc = "done") => \A rk \in RootKinds : ImplValueAttr(rk) = RefValueAttr(rk)

\* ---- properties ----------------------------------------------------------------------------------
Done == pc = "done"
Unchanged == impl.k = "name" \/ impl = [k |-> "path", p |-> <<n>>]     \* the text of the name itself (e.g. `pkg` -> "pkg")
Asserted == Done /\ InDom(Guard) /\ ~Exempt
Verdict ==
  IF Exempt THEN "exempt"
  ELSE CASE py.b = "obj" -> IF impl = [k |-> "path", p |-> py.p] THEN "ok" ELSE "bound"
         [] py.b = "param" -> IF Unchanged \/ impl = [k |-> "param", p |-> py.p] THEN "ok" ELSE "param"
         [] OTHER -> IF Unchanged \/ (impl.k = "path" /\ impl.p \in just) THEN "ok" ELSE "unjustified"
VerdictLate ==
  IF Exempt THEN "exempt"
  ELSE CASE pyl.b = "obj" -> IF impl = [k |-> "path", p |-> pyl.p] THEN "ok" ELSE "bound"
         [] pyl.b = "param" -> IF Unchanged \/ impl = [k |-> "param", p |-> pyl.p] THEN "ok" ELSE "param"
         [] OTHER -> IF Unchanged \/ (impl.k = "path" /\ impl.p \in just) THEN "ok" ELSE "unjustified"
VerdictEloc == IF Exempt THEN "exempt" ELSE IF Unchanged THEN "ok" ELSE "eloc"

\* clause 1: a bound name resolves to the dotted path of the object Python binds
ResolvesToPythonBinding == (Asserted /\ py.b = "obj") => impl = [k |-> "path", p |-> py.p]
\* the same for stringized annotations, which are evaluated after the module has been executed
StringAnnotationResolves == (Asserted /\ pyl.b = "obj") => impl = [k |-> "path", p |-> pyl.p]
\* members inherited from a base class are in no scope: the answer is never the path of what the base class declares
InheritedNeverAnswers == (Done /\ inh # None) => (impl.k = "path" => impl.p # Inherited("A").path)
\* a parameter stays local: Griffe's `Class(param)` notation for __init__ parameters, or the name unchanged
ParamStaysLocal == (Asserted /\ py.b = "param") => (Unchanged \/ impl = [k |-> "param", p |-> py.p])
\* clause 3: no static binding => unchanged, or a path some definition/import in (Python's) scope justifies
UnboundUnchangedOrJustified == (Asserted /\ py.b = "unbound") => (Unchanged \/ (impl.k = "path" /\ impl.p \in just))
\* clause 2: dotted chains resolve segment by segment from the root
ChainSegmentBySegment == (Asserted /\ py.b = "obj") => \A c \in 1..Len(Suffix) : ImplChain(c) = py.p \o SubSeq(Suffix, 1, c)
\* names bound inside the expression itself (lambda parameter, comprehension variable) stay unchanged
ExprLocalUnchanged == (Done /\ "eloc" \in Guard /\ ~Exempt) => Unchanged
\* relative_to_absolute equals importlib's _resolve_name whenever CPython accepts the level
RelToAbsIsPyResolveName ==
  (pc # "case" /\ st.stmt = "from" /\ PyResolveName(M, st.level, st.mod).ok)
     => RelToAbs(st, M) = PyResolveName(M, st.level, st.mod).p \o <<st.name>>
\* the walk is a walk up the tree: at most one hop per scope object, results are well-formed
WalkWellFormed ==
  /\ pc \in {"case", "resolve", "resolved", "done"}
  /\ pc \in {"resolved", "done"} => (impl.k \in {"path", "param", "name"} /\ (impl.k = "path" => Len(impl.p) > 0))
  /\ pc = "resolve" => cur \in ChainObjs

EmitCase ==
  (Emit /\ Done) =>
    PrintT(<<"CASE", ToJson([fam |-> fam, M |-> M, n |-> n, up1 |-> up1, up2 |-> up2, modb |-> modb, ab |-> ab, bb |-> bb,
                             fnb |-> fnb, inh |-> inh, zmod |-> ZMod, stub |-> stub, files |-> FileSuffixes(M), st |-> st, S |-> S, impl |-> impl, binder |-> binder,
                             py |-> py, pyl |-> pyl, mvl |-> VerdictLate, just |-> just, suffix |-> Suffix,
                             va |-> [rk \in RootKinds |-> [impl |-> ImplValueAttr(rk), ref |-> RefValueAttr(rk)]], mv |-> Verdict, mve |-> VerdictEloc,
                             clean |-> InDom({}), exempt |-> Exempt, why |-> (IF Exempt THEN PyStmt(st).why ELSE ""),
                             stm |-> IF S = "A.init"
                                       THEN [M |-> StmtOf(modb, "M"), A |-> StmtOf(ab, "A"), B |-> StmtOf(bb, "B"), F |-> StmtOf(KindAt("fA"), "fA")]
                                       ELSE [M |-> NoStmt, A |-> NoStmt, B |-> NoStmt, F |-> NoStmt],
                             pre |-> IF S = "A.init"
                                       THEN [M |-> PreStmtOf(modb, "M"), A |-> PreStmtOf(ab, "A"), B |-> PreStmtOf(bb, "B"), F |-> NoStmt]
                                       ELSE [M |-> NoStmt, A |-> NoStmt, B |-> NoStmt, F |-> NoStmt]])>>)
=============================================================================
