----------------------------- MODULE ExprBuild -----------------------------
(***************************************************************************)
(* C03 - stored expressions render back to equivalent Python code.         *)
(*                                                                         *)
(* Shape A/T.  A *case* is a Python expression tree (an `ast` node, kept   *)
(* as [t, op, kids, ps]) built by plugging node templates into each other  *)
(* along a chain of (shape, slot) pairs: every (parent type, operand       *)
(* position, child type) edge at depth 2, every two-edge chain at depth 3. *)
(*                                                                         *)
(* Impl: step-by-step transcription of _griffe.expressions:                *)
(*    Build(node, env)   the recursive descent `_build` -> `_build_*`;     *)
(*                       env = the keyword flags travelling in **kwargs;   *)
(*                       every builder *consumes* exactly the flags named  *)
(*                       in its signature and forwards the others (that is *)
(*                       where flags leak to grand-children)               *)
(*    Iterate(e, flat)   every `Expr*.iterate`, `_yield`, `_join`          *)
(* Ref: what the property demands                                          *)
(*    NeedsParens(req, child)  CPython's grammar: the operand position     *)
(*                       `req` accepts `child` without parentheses or not  *)
(*    RefRender          minimal-parentheses rendering of the source tree  *)
(*    ShouldParse        a string is code iff evaluation is not postponed, *)
(*                       it sits at a type position and not under Literal  *)
(* TLC computes both for every case (action Compute), stores them in       *)
(* variables, and the invariants are the clauses of the property.  The     *)
(* unchanged code has genuine defects: `Clean` is the domain on which the  *)
(* clauses hold (verified), `bad # {}` elsewhere documents each defect by  *)
(* (clause, cause, parent, pos, child); gverif/props/c03.py replays every  *)
(* case on the real code and on CPython's parser.                          *)
(***************************************************************************)
EXTENDS Naturals, Sequences, FiniteSets, TLC, Json

CONSTANTS Depth,      \* 2: chains of one edge, 3: chains of two edges
          Family,     \* "chain" | "lambda" | "single"
          Stride, Offset,   \* depth-3 sampling: keep chain number k iff k % Stride = Offset
          Domain,     \* "all" | "clean" | "defect"
          Fixed,      \* proposed repairs (q..v, not in /repo yet) that are part of the baseline: flags of the
                      \* findings.d entries with status "fixed"
          Reverted,   \* MODEL-ONLY regression domain: repairs committed in /repo (a..h, p) switched back to the old
                      \* behaviour; {} = the code of /repo.  TLC must still exhibit each old defect there (OldDefectGone).
          Emit

VARIABLES top,        \* where the expression is stored: "value" | "annotation"
          P0,         \* parse_strings given to get_expression (annotation and no `from __future__ import annotations`)
          chain,      \* <<[s |-> shape, k |-> slot number]...>> ending in a leaf shape with k = 0
          tree,       \* the ast node of the case
          pc, built, impl, layer, ref, bad, srcnames
casevars == <<top, P0, chain, tree>>
vars == <<casevars, pc, built, impl, layer, ref, bad, srcnames>>

\* ---- ast nodes ---------------------------------------------------------------------------------
N(t, op, kids) == [t |-> t, op |-> op, kids |-> kids, ps |-> <<>>]
Nm(x) == N("Name", x, <<>>)
NameTab == << <<"a1", "b1", "c1", "d1", "e1">>, <<"a2", "b2", "c2", "d2", "e2">>, <<"a3", "b3", "c3", "d3", "e3">>,
              <<"a4", "b4", "c4", "d4", "e4">> >>
V(lv, k) == Nm(NameTab[lv][k])
Comp(lv) == N("comprehension", "sync", <<V(lv, 3), V(lv, 4)>>)     \* for c in d
Par(name, kind, d) == [name |-> name, kind |-> kind, d |-> d]       \* d: index in kids of the default, 0 = none
Lam(ps, kids) == [t |-> "Lambda", op |-> "", kids |-> kids, ps |-> ps]

BinOps == {"|", "^", "&", "<<", ">>", "+", "-", "*", "/", "//", "%", "@", "**"}
BinRep == {"|", "^", "&", "<<", "+", "*", "**"}                      \* one operator per precedence class

\* Templates.  Slot k of a shape is the path Slots[shape][k] into kids.
Tmpl(s, lv) ==
  CASE s = "Name" -> V(lv, 1)
    [] s = "Int" -> N("Const", "int", <<>>)
    [] s = "Float" -> N("Const", "float", <<>>)
    [] s = "None" -> N("Const", "none", <<>>)
    [] s = "Ellipsis" -> N("Const", "ellipsis", <<>>)
    [] s = "Bytes" -> N("Const", "bytes", <<>>)
    [] s = "StrName" -> N("Const", "str", <<V(lv, 5)>>)                               \* 'e'
    [] s = "StrTuple" -> N("Const", "str", <<N("Tuple", "", <<V(lv, 4), V(lv, 5)>>)>>) \* 'd, e'
    [] s = "StrOr" -> N("Const", "str", <<N("BoolOp", "or", <<V(lv, 4), V(lv, 5)>>)>>) \* 'd or e'
    [] s = "StrNested" -> N("Const", "str", <<N("Subscript", "", <<V(lv, 4), N("Const", "str", <<V(lv, 5)>>)>>)>>)  \* "d['e']"
    [] s = "StrBad" -> N("Const", "strbad", <<>>)
    [] s = "Attribute" -> N("Attribute", "x", <<V(lv, 1)>>)
    [] s \in BinOps -> N("BinOp", s, <<V(lv, 1), V(lv, 2)>>)
    [] s = "Or" -> N("BoolOp", "or", <<V(lv, 1), V(lv, 2)>>)
    [] s = "And" -> N("BoolOp", "and", <<V(lv, 1), V(lv, 2)>>)
    [] s = "Or3" -> N("BoolOp", "or", <<V(lv, 1), V(lv, 2), V(lv, 3)>>)
    [] s = "Call0" -> N("Call", "", <<V(lv, 1)>>)
    [] s = "Call1" -> N("Call", "", <<V(lv, 1), V(lv, 2)>>)
    [] s = "Call2" -> N("Call", "", <<V(lv, 1), V(lv, 2), V(lv, 3)>>)
    [] s = "CallKw" -> N("Call", "", <<V(lv, 1), V(lv, 2), N("keyword", "k", <<V(lv, 3)>>)>>)
    [] s = "CallStar" -> N("Call", "", <<V(lv, 1), N("Starred", "", <<V(lv, 2)>>), N("keyword", "**", <<V(lv, 3)>>)>>)
    [] s = "Compare" -> N("Compare", "<", <<V(lv, 1), V(lv, 2)>>)
    [] s = "Compare2" -> N("Compare", "<", <<V(lv, 1), V(lv, 2), V(lv, 3)>>)
    [] s = "Dict" -> N("Dict", "", <<V(lv, 1), V(lv, 2)>>)
    [] s = "DictUnpack" -> N("Dict", "", <<N("NoKey", "", <<>>), V(lv, 1), V(lv, 2), V(lv, 3)>>)
    [] s = "DictComp" -> N("DictComp", "", <<V(lv, 1), V(lv, 2), Comp(lv)>>)
    [] s = "GeneratorExp" -> N("GeneratorExp", "", <<V(lv, 1), Comp(lv)>>)
    [] s = "ListComp" -> N("ListComp", "", <<V(lv, 1), Comp(lv)>>)
    [] s = "SetComp" -> N("SetComp", "", <<V(lv, 1), Comp(lv)>>)
    [] s = "ListCompIf" -> N("ListComp", "", <<V(lv, 1), N("comprehension", "sync", <<V(lv, 3), V(lv, 4), V(lv, 5)>>)>>)
    [] s = "ListComp2" -> N("ListComp", "", <<V(lv, 1), N("comprehension", "async", <<N("Tuple", "", <<V(lv, 2), V(lv, 3)>>), V(lv, 4), V(lv, 5), V(lv, 1)>>),
                                                Comp(lv)>>)
    [] s = "IfExp" -> N("IfExp", "", <<V(lv, 1), V(lv, 2), V(lv, 3)>>)
    [] s = "FStr" -> N("JoinedStr", "", <<N("FormattedValue", "", <<V(lv, 1)>>)>>)
    [] s = "FStrTxt" -> N("JoinedStr", "", <<N("Const", "ftxt", <<>>), N("FormattedValue", "", <<V(lv, 1)>>), N("Const", "ftxt", <<>>)>>)
    [] s = "FStrQuote" -> N("JoinedStr", "", <<N("Const", "fquote", <<>>), N("FormattedValue", "", <<V(lv, 1)>>)>>)
    [] s = "FStrBrace" -> N("JoinedStr", "", <<N("Const", "fbrace", <<>>), N("FormattedValue", "", <<V(lv, 1)>>)>>)
    [] s = "FStrConv" -> N("JoinedStr", "", <<N("FormattedValue", "r", <<V(lv, 1)>>)>>)
    [] s = "FStrSpec" -> N("JoinedStr", "", <<N("FormattedValue", "", <<V(lv, 1), N("JoinedStr", "", <<N("Const", "fspec", <<>>), N("FormattedValue", "", <<V(lv, 2)>>)>>)>>)>>)
    [] s = "Lambda0" -> Lam(<<>>, <<V(lv, 1)>>)
    [] s = "LambdaDef" -> Lam(<<Par("p", "pos", 0), Par("x", "arg", 2), Par("va", "var", 0), Par("k", "kwo", 3), Par("kw", "varkw", 0)>>,
                              <<V(lv, 1), V(lv, 2), V(lv, 3)>>)
    [] s = "LambdaPart" -> Lam(<<Par("p", "pos", 0), Par("x", "arg", 0), Par("y", "arg", 2), Par("z", "arg", 3)>>,      \* lambda p, /, x, y=b, z=c: a
                               <<V(lv, 1), V(lv, 2), V(lv, 3)>>)
    [] s = "List" -> N("List", "", <<V(lv, 1), V(lv, 2)>>)
    [] s = "List1" -> N("List", "", <<V(lv, 1)>>)
    [] s = "List0" -> N("List", "", <<>>)
    [] s = "ListStar" -> N("List", "", <<N("Starred", "", <<V(lv, 1)>>), V(lv, 2)>>)
    [] s = "Set" -> N("Set", "", <<V(lv, 1), V(lv, 2)>>)
    [] s = "SetStar" -> N("Set", "", <<N("Starred", "", <<V(lv, 1)>>)>>)
    [] s = "NamedExpr" -> N("NamedExpr", "", <<V(lv, 1), V(lv, 2)>>)
    [] s = "Subscript" -> N("Subscript", "", <<V(lv, 1), V(lv, 2)>>)
    [] s = "SubTuple" -> N("Subscript", "", <<V(lv, 1), N("Tuple", "", <<V(lv, 2), V(lv, 3)>>)>>)        \* a[b, c]
    [] s = "SubStar" -> N("Subscript", "", <<V(lv, 1), N("Tuple", "", <<N("Starred", "", <<V(lv, 2)>>)>>)>>) \* a[*b]
    [] s = "SubSlice" -> N("Subscript", "", <<V(lv, 1), N("Slice", "lus", <<V(lv, 2), V(lv, 3), V(lv, 4)>>)>>)
    [] s = "SubSliceU" -> N("Subscript", "", <<V(lv, 1), N("Slice", "u", <<V(lv, 2)>>)>>)
    [] s = "SubSliceS" -> N("Subscript", "", <<V(lv, 1), N("Slice", "s", <<V(lv, 2)>>)>>)
    [] s = "SubSliceTuple" -> N("Subscript", "", <<V(lv, 1), N("Tuple", "", <<N("Slice", "l", <<V(lv, 2)>>), V(lv, 3)>>)>>)
    [] s = "SubLiteral" -> N("Subscript", "", <<Nm("Literal"), V(lv, 2)>>)
    [] s = "SubLiteralSub" -> N("Subscript", "", <<Nm("Literal"), N("Subscript", "", <<V(lv, 1), V(lv, 2)>>)>>)   \* Literal[a[b]]
    [] s = "SubLiteral2" -> N("Subscript", "", <<N("Attribute", "Literal", <<Nm("t")>>), N("Tuple", "", <<V(lv, 2), N("Const", "strbad", <<>>)>>)>>)
    [] s = "Tuple" -> N("Tuple", "", <<V(lv, 1), V(lv, 2)>>)
    [] s = "Tuple1" -> N("Tuple", "", <<V(lv, 1)>>)
    [] s = "Tuple0" -> N("Tuple", "", <<>>)
    [] s = "TupleStar" -> N("Tuple", "", <<N("Starred", "", <<V(lv, 1)>>), V(lv, 2)>>)
    [] s = "Not" -> N("UnaryOp", "not", <<V(lv, 1)>>)
    [] s = "USub" -> N("UnaryOp", "-", <<V(lv, 1)>>)
    [] s = "Invert" -> N("UnaryOp", "~", <<V(lv, 1)>>)
    [] s = "UAdd" -> N("UnaryOp", "+", <<V(lv, 1)>>)
    [] s = "Yield0" -> N("Yield", "", <<>>)
    [] s = "Yield" -> N("Yield", "", <<V(lv, 1)>>)
    [] s = "YieldFrom" -> N("YieldFrom", "", <<V(lv, 1)>>)

Slots == [
  Attribute |-> << <<1>> >>,
  Or |-> << <<1>>, <<2>> >>, And |-> << <<1>>, <<2>> >>, Or3 |-> << <<2>> >>,
  Call0 |-> << <<1>> >>, Call1 |-> << <<1>>, <<2>> >>, Call2 |-> << <<2>>, <<3>> >>,
  CallKw |-> << <<2>>, <<3, 1>> >>, CallStar |-> << <<2, 1>>, <<3, 1>> >>,
  Compare |-> << <<1>>, <<2>> >>, Compare2 |-> << <<2>>, <<3>> >>,
  Dict |-> << <<1>>, <<2>> >>, DictUnpack |-> << <<2>>, <<4>> >>,
  DictComp |-> << <<1>>, <<2>>, <<3, 2>> >>,
  GeneratorExp |-> << <<1>>, <<2, 2>> >>, ListComp |-> << <<1>>, <<2, 1>>, <<2, 2>> >>, SetComp |-> << <<1>> >>,
  ListCompIf |-> << <<2, 3>> >>, ListComp2 |-> << <<2, 3>>, <<3, 2>> >>,
  IfExp |-> << <<1>>, <<2>>, <<3>> >>,
  FStr |-> << <<1, 1>> >>, FStrTxt |-> << <<2, 1>> >>, FStrQuote |-> << <<2, 1>> >>, FStrBrace |-> << <<2, 1>> >>,
  FStrConv |-> << <<1, 1>> >>, FStrSpec |-> << <<1, 1>>, <<1, 2, 2, 1>> >>,
  Lambda0 |-> << <<1>> >>, LambdaDef |-> << <<1>>, <<2>>, <<3>> >>, LambdaPart |-> << <<1>>, <<2>>, <<3>> >>,
  List |-> << <<1>>, <<2>> >>, List1 |-> << <<1>> >>, ListStar |-> << <<1, 1>> >>,
  Set |-> << <<1>>, <<2>> >>, SetStar |-> << <<1, 1>> >>,
  NamedExpr |-> << <<2>> >>,
  Subscript |-> << <<1>>, <<2>> >>, SubTuple |-> << <<2, 1>>, <<2, 2>> >>, SubStar |-> << <<2, 1, 1>> >>,
  SubSlice |-> << <<2, 1>>, <<2, 2>>, <<2, 3>> >>, SubSliceU |-> << <<2, 1>> >>, SubSliceS |-> << <<2, 1>> >>,
  SubSliceTuple |-> << <<2, 1, 1>>, <<2, 2>> >>,
  SubLiteral |-> << <<2>> >>, SubLiteral2 |-> << <<2, 1>> >>, SubLiteralSub |-> << <<2, 2>> >>,
  Tuple |-> << <<1>>, <<2>> >>, Tuple1 |-> << <<1>> >>, TupleStar |-> << <<1, 1>> >>,
  Not |-> << <<1>> >>, USub |-> << <<1>> >>, Invert |-> << <<1>> >>, UAdd |-> << <<1>> >>,
  Yield |-> << <<1>> >>, YieldFrom |-> << <<1>> >> ]
BinSlots == << <<1>>, <<2>> >>
SlotsOf(s) == IF s \in BinOps THEN BinSlots ELSE IF s \in DOMAIN Slots THEN Slots[s] ELSE <<>>

\* shapes used as parents (every shape with a slot), as children, and comprehension targets
ParentShapes == (DOMAIN Slots) \cup BinRep
TargetSlot(s, k) == s = "ListComp" /\ k = 2
TargetShapes == {"Name", "Tuple", "Attribute", "Subscript", "List"}
ChildShapes == {"Name", "Int", "Float", "None", "Ellipsis", "Bytes", "StrName", "StrTuple", "StrOr", "StrNested", "StrBad", "Attribute",
                "Or", "And", "Call0", "Call1", "CallKw", "CallStar", "Compare", "Dict", "DictUnpack", "DictComp", "GeneratorExp", "ListComp", "SetComp",
                "IfExp", "FStr", "FStrTxt", "FStrQuote", "FStrBrace", "FStrConv", "FStrSpec", "Lambda0", "LambdaDef", "LambdaPart", "List", "List0",
                "Set", "NamedExpr", "Subscript", "SubTuple", "SubSlice", "SubLiteral", "Tuple", "Tuple1", "Tuple0", "TupleStar",
                "Not", "USub", "Yield0", "Yield", "YieldFrom"} \cup BinRep

RECURSIVE Plug(_, _, _)
Plug(n, path, c) ==
  IF path = <<>> THEN c
  ELSE [n EXCEPT !.kids = [i \in 1..Len(n.kids) |-> IF i = path[1] THEN Plug(n.kids[i], Tail(path), c) ELSE n.kids[i]]]

RECURSIVE Compose(_, _)
Compose(ch, lv) ==       \* the tree of a chain
  LET lnk == ch[1] IN
  IF lnk.k = 0 THEN Tmpl(lnk.s, lv)
  ELSE Plug(Tmpl(lnk.s, lv), SlotsOf(lnk.s)[lnk.k], Compose(Tail(ch), lv + 1))

RECURSIVE HasStr(_)
HasStr(n) == (n.t = "Const" /\ n.op \in {"str", "strbad"}) \/ \E i \in 1..Len(n.kids) : HasStr(n.kids[i])

\* ================================================================================================
\* Impl 1/2: the builder.  env = the flags travelling through **kwargs (absent = False).
\*   P parse_strings   L literal_strings   S in_subscript   J in_joined_str   F in_formatted_str
\* ================================================================================================
Env(p, l, s, j, f) == [P |-> p, L |-> l, S |-> s, J |-> j, F |-> f]
X(c, op, kids) == [c |-> c, op |-> op, kids |-> kids, imp |-> FALSE, ps |-> <<>>]
StrKinds == {"str", "strbad", "ftxt", "fquote", "fbrace", "fspec"}     \* Constant nodes whose value is a str
IsLiteralExpr(e) ==      \* left.canonical_path in {"typing.Literal", "typing_extensions.Literal"}
  \/ e.c = "ExprName" /\ e.op = "Literal"
  \/ e.c = "ExprAttribute" /\ Len(e.kids) = 2 /\ e.kids[1].c = "ExprName" /\ e.kids[1].op = "t"
       /\ e.kids[2].c = "ExprName" /\ e.kids[2].op = "Literal"

\* ---- repairs.  All of a..h, p, q..v are commits of /repo: they ARE the transcribed code (Has = TRUE unless reverted in the
\* model-only regression domain).  A future proposed repair gets a new letter outside Applied and is switched on by Fixed.
Applied == {"a", "b", "c", "d", "e", "f", "g", "h", "p", "q", "r", "s", "t", "u", "v"}
Has(x) == IF x \in Applied THEN x \notin Reverted ELSE x \in Fixed
FixDictCompSpace == Has("a")     \* e0077b0 ExprDictComp.iterate yields " " before the generators
FixDictUnpack    == Has("b")     \* d7f44f0 ExprDict.iterate renders a None key as `**value`
FixEmptyTuple    == Has("c")     \* 3acf20f ExprTuple.iterate: an empty tuple is never implicit
FixIntAttribute  == Has("d")     \* cf76df5 ExprAttribute.iterate parenthesises an integer literal
FixConversion    == Has("e")     \* 8eff3df ExprFormatted.conversion is stored and rendered
FixFormatSpec    == Has("f")     \* 902db3f ExprFormatted.format_spec is built and rendered
FixSubscriptLeak == Has("g")     \* 312e751 _build drops in_subscript unless the node is a Tuple or a Constant
FixFormattedLeak == Has("h")     \* 9caea49 _build_joinedstr drops in_formatted_str
FixPrecedence    == Has("p")     \* 45499eb iterate methods parenthesise operands by precedence (_operand)
FixUnpackParens  == Has("q")     \* f9ca68b ExprDict.iterate: _operand(value, _BOR) after `**`
FixGenExpParens  == Has("r")     \* 1b4d3ff ExprGeneratorExp.iterate yields its own parentheses; they are the call's when it is the sole argument
FixYieldParens   == Has("s")     \* a7af8e4 _yield wraps a nested ExprYield / ExprYieldFrom in parentheses
FixFieldParens   == Has("t")     \* 06ab195 ExprFormatted.iterate: _operand(value, _OR) (lambda / conditional, as ast.unparse)
FixFieldBrace    == Has("u")     \* 873b196 ExprFormatted.iterate: a space before a value that starts with `{`
FixTextEscape    == Has("v")     \* 831f109 ExprJoinedStr.iterate escapes quotes, backslashes and braces of literal text

\* ---- _griffe.agents.nodes.parameters.get_parameters on the `arguments` of a lambda (vocabulary of Params.tla, C02):
\* the ast keeps positional-only ++ positional-or-keyword parameters and ONE list `defaults` for their tail; the code
\* pairs them by reversing both, zip_longest, and reversing again.  n.ps[i].d is the kid that CPython binds as default
\* of parameter i (the reference, right-aligned by construction); GetParameters recomputes it the way the code does.
Rev(sq) == [i \in 1..Len(sq) |-> sq[Len(sq) + 1 - i]]
ZipLongest(a, b, fill) == [i \in 1..(IF Len(a) > Len(b) THEN Len(a) ELSE Len(b)) |->
                             <<IF i <= Len(a) THEN a[i] ELSE fill, IF i <= Len(b) THEN b[i] ELSE fill>>]
GetParameters(ps) ==
  LET positional == SelectSeq(ps, LAMBDA q : q.kind \in {"pos", "arg"})                   \* node.posonlyargs ++ node.args, tagged with their kind
      defaults == LET withd == SelectSeq(positional, LAMBDA q : q.d # 0) IN [i \in 1..Len(withd) |-> withd[i].d]     \* node.defaults
      paired == Rev(ZipLongest(Rev(positional), Rev(defaults), 0))                         \* reversed(zip_longest(reversed(...), reversed(node.defaults)))
  IN [i \in 1..Len(ps) |-> IF i <= Len(positional) THEN [paired[i][1] EXCEPT !.d = paired[i][2]] ELSE ps[i]]
                                                                                          \* vararg, kw-only (kw_defaults has one entry per name), kwarg

RECURSIVE Build(_, _)
RECURSIVE BuildNode(_, _)
BuildAll(kids, env) == [i \in 1..Len(kids) |-> Build(kids[i], env)]
Build(n, env) ==         \* _build: dispatch on the node type (repair g: the flag only reaches the slice itself)
  BuildNode(n, IF FixSubscriptLeak /\ n.t \notin {"Tuple", "Const"} THEN [env EXCEPT !.S = FALSE] ELSE env)
BuildNode(n, env) ==
  CASE n.t = "Name" -> X("ExprName", n.op, <<>>)                                  \* _build_name
    [] n.t = "Const" ->                                                             \* _build_constant(in_formatted_str, in_joined_str, parse_strings, literal_strings, **kwargs)
         IF n.op \notin StrKinds THEN X("lit", n.op, <<>>)                         \*   repr(value) / "..."
         ELSE IF env.J /\ ~env.F THEN X("raw", n.op, <<>>)                         \*   in an f-string, not in a formatted value: no quotes
         ELSE IF env.P /\ ~env.L /\ n.op = "str"                                    \*   compile(value) succeeded ("strbad" etc: SyntaxError)
              THEN X("Parsed", "", <<Build(n.kids[1], [env EXCEPT !.P = FALSE, !.L = FALSE, !.J = FALSE, !.F = FALSE])>>)
                                                                                    \*   _build(parsed.body, parent, **kwargs): the four consumed flags are gone, in_subscript stays
         ELSE X("quoted", n.op, <<>>)                                               \*   repr(value)
    [] n.t = "Attribute" ->                                                         \* _build_attribute
         LET left == Build(n.kids[1], env) IN
         IF left.c = "ExprAttribute" THEN [left EXCEPT !.kids = Append(left.kids, X("ExprName", n.op, <<>>))]
         ELSE X("ExprAttribute", "", <<left, X("ExprName", n.op, <<>>)>>)
    [] n.t = "BinOp" -> X("ExprBinOp", n.op, BuildAll(n.kids, env))
    [] n.t = "BoolOp" -> X("ExprBoolOp", n.op, BuildAll(n.kids, env))
    [] n.t = "Call" -> X("ExprCall", "", BuildAll(n.kids, env))                     \* keywords: function=function consumed by _build_keyword
    [] n.t = "keyword" -> X(IF n.op = "**" THEN "ExprVarKeyword" ELSE "ExprKeyword", n.op, BuildAll(n.kids, env))
    [] n.t = "Compare" -> X("ExprCompare", n.op, BuildAll(n.kids, env))
    [] n.t = "comprehension" -> X("ExprComprehension", n.op, BuildAll(n.kids, env))
    [] n.t = "NoKey" -> X("NoneKey", "", <<>>)                                      \* key None of `**mapping` kept as None
    [] n.t = "Dict" -> X("ExprDict", "", BuildAll(n.kids, env))
    [] n.t = "DictComp" -> X("ExprDictComp", "", BuildAll(n.kids, env))
    [] n.t = "FormattedValue" ->                                                    \* _build_formatted(in_formatted_str, **kwargs): value only;
         X("ExprFormatted", IF FixConversion THEN n.op ELSE "",                      \*   conversion and format_spec are not looked at (repairs e, f)
           <<Build(n.kids[1], [env EXCEPT !.F = TRUE])>>
           \o (IF FixFormatSpec /\ Len(n.kids) = 2 THEN <<Build(n.kids[2], [env EXCEPT !.F = FALSE])>> ELSE <<>>))
    [] n.t = "GeneratorExp" -> X("ExprGeneratorExp", "", BuildAll(n.kids, env))
    [] n.t = "IfExp" -> X("ExprIfExp", "", BuildAll(n.kids, env))
    [] n.t = "JoinedStr" ->                                                         \* _build_joinedstr(in_joined_str, **kwargs)
         X("ExprJoinedStr", "", BuildAll(n.kids, IF FixFormattedLeak THEN [env EXCEPT !.J = TRUE, !.F = FALSE] ELSE [env EXCEPT !.J = TRUE]))
    [] n.t = "Lambda" ->                                                            \* _build_lambda: defaults through safe_get_expression(parse_strings=False): fresh flags
         [X("ExprLambda", "", [i \in 1..Len(n.kids) |-> IF i = 1 THEN Build(n.kids[1], env)
                                                         ELSE Build(n.kids[i], Env(FALSE, FALSE, FALSE, FALSE, FALSE))])
            EXCEPT !.ps = GetParameters(n.ps)]
    [] n.t = "List" -> X("ExprList", "", BuildAll(n.kids, env))
    [] n.t = "ListComp" -> X("ExprListComp", "", BuildAll(n.kids, env))
    [] n.t = "NamedExpr" -> X("ExprNamedExpr", "", BuildAll(n.kids, env))
    [] n.t = "Set" -> X("ExprSet", "", BuildAll(n.kids, env))
    [] n.t = "SetComp" -> X("ExprSetComp", "", BuildAll(n.kids, env))
    [] n.t = "Slice" -> X("ExprSlice", n.op, BuildAll(n.kids, env))
    [] n.t = "Starred" -> X("ExprVarPositional", "", BuildAll(n.kids, env))
    [] n.t = "Subscript" ->                                                         \* _build_subscript(parse_strings, literal_strings, in_subscript, **kwargs)
         LET rest == [env EXCEPT !.P = FALSE, !.L = FALSE, !.S = FALSE]            \*   what is left in kwargs
             left == Build(n.kids[1], rest)
             slice == IF env.P
                      THEN Build(n.kids[2], [rest EXCEPT !.P = TRUE, !.L = (env.L \/ IsLiteralExpr(left)), !.S = TRUE])
                      ELSE Build(n.kids[2], [rest EXCEPT !.S = TRUE])
         IN X("ExprSubscript", "", <<left, slice>>)
    [] n.t = "Tuple" ->                                                             \* _build_tuple(in_subscript, **kwargs)
         [X("ExprTuple", "", BuildAll(n.kids, [env EXCEPT !.S = FALSE])) EXCEPT !.imp = env.S]
    [] n.t = "UnaryOp" -> X("ExprUnaryOp", n.op, BuildAll(n.kids, env))
    [] n.t = "Yield" -> X("ExprYield", "", BuildAll(n.kids, env))
    [] n.t = "YieldFrom" -> X("ExprYieldFrom", "", BuildAll(n.kids, env))

\* ================================================================================================
\* Impl 2/2: iteration.  Items: <<"s", text>> syntax, <<"n", id>> ExprName, <<"c", kind>> repr of a non-string
\* constant, <<"q", kind>> repr of a string, <<"t", kind>> unquoted f-string text, <<"g", paren>> a parenthesis that
\* groups (ExprNamedExpr / explicit ExprTuple), <<"e", expr>> a sub-expression (flat = FALSE only).
\* ================================================================================================
T(s) == <<"s", s>>
BinLevel(op) == CASE op = "|" -> 9 [] op = "^" -> 10 [] op = "&" -> 11 [] op \in {"<<", ">>"} -> 12 [] op \in {"+", "-"} -> 13
                  [] op \in {"*", "/", "//", "%", "@"} -> 14 [] op = "**" -> 16
\* repair p: _precedence(element) and the level each iterate passes to _operand(element, level) (0: plain _yield)
RECURSIVE ImplPrec(_)
ImplPrec(x) == CASE x.c = "Parsed" -> ImplPrec(x.kids[1])
                 [] x.c = "ExprBinOp" -> BinLevel(x.op)
                 [] x.c = "ExprUnaryOp" -> IF x.op = "not" THEN 7 ELSE 15
                 [] x.c = "ExprBoolOp" -> IF x.op = "or" THEN 5 ELSE 6
                 [] x.c = "ExprCompare" -> 8
                 [] x.c \in {"ExprIfExp", "ExprLambda"} -> 4
                 [] OTHER -> 18
Lvl(e, i) ==
  IF ~FixPrecedence THEN 0 ELSE
  CASE e.c = "ExprAttribute" -> IF i = 1 THEN 18 ELSE 0
    [] e.c = "ExprBinOp" -> IF e.op = "**" THEN (IF i = 1 THEN 17 ELSE 15) ELSE BinLevel(e.op) + (IF i = 1 THEN 0 ELSE 1)
    [] e.c = "ExprBoolOp" -> IF e.op = "or" THEN 6 ELSE 7
    [] e.c = "ExprCall" -> IF i = 1 THEN 18 ELSE 0
    [] e.c = "ExprCompare" -> 9
    [] e.c = "ExprComprehension" -> IF i >= 2 THEN 5 ELSE 0
    [] e.c = "ExprIfExp" -> IF i <= 2 THEN 5 ELSE 0
    [] e.c = "ExprDict" -> IF FixUnpackParens /\ i % 2 = 0 /\ e.kids[i - 1].c = "NoneKey" THEN 9 ELSE 0
    [] e.c = "ExprFormatted" -> IF FixFieldParens /\ i = 1 THEN 5 ELSE 0
    [] e.c = "ExprVarPositional" -> 9
    [] e.c = "ExprSubscript" -> IF i = 1 THEN 18 ELSE 0
    [] e.c = "ExprUnaryOp" -> IF e.op = "not" THEN 7 ELSE 15
    [] OTHER -> 0
Wrapped(e, i) ==         \* the parent's iterate puts kid i between parentheses
  \/ ImplPrec(e.kids[i]) < Lvl(e, i)
  \/ FixIntAttribute /\ e.c = "ExprAttribute" /\ i = 1 /\ e.kids[1].c = "lit" /\ e.kids[1].op = "int"     \* repair d
RECURSIVE Iterate(_, _)
RECURSIVE JoinIt(_, _, _)
RECURSIVE JoinKids(_, _, _, _, _)
RECURSIVE IsYieldExpr(_)
IsYieldExpr(x) == IF x.c = "Parsed" THEN IsYieldExpr(x.kids[1]) ELSE x.c \in {"ExprYield", "ExprYieldFrom"}
YieldRaw(x, flat) == IF flat THEN Iterate(x, TRUE) ELSE << <<"e", x>> >>
Yield_(x, flat) ==                                                               \* _yield on an Expr (strings are items already)
  IF FixYieldParens /\ IsYieldExpr(x) THEN << <<"g", "(">> >> \o YieldRaw(x, flat) \o << <<"g", ")">> >> ELSE YieldRaw(x, flat)
JoinIt(xs, joint, flat) ==                                                        \* _join
  IF xs = <<>> THEN <<>>
  ELSE IF Len(xs) = 1 THEN Yield_(xs[1], flat)
  ELSE Yield_(xs[1], flat) \o joint \o JoinIt(Tail(xs), joint, flat)
Kid(e, i, flat) == IF Wrapped(e, i) THEN << <<"g", "(">> >> \o Yield_(e.kids[i], flat) \o << <<"g", ")">> >> ELSE Yield_(e.kids[i], flat)
JoinKids(e, from, to, joint, flat) ==
  IF from > to THEN <<>> ELSE Kid(e, from, flat) \o (IF from < to THEN joint ELSE <<>>) \o JoinKids(e, from + 1, to, joint, flat)
GenInner(e, flat) == Kid(e, 1, flat) \o <<T(" ")>> \o JoinKids(e, 2, Len(e.kids), <<T(" ")>>, flat)     \* element and generators of an ExprGeneratorExp
StartsWithBrace(e) == LET v == Kid(e, 1, TRUE) IN Len(v) > 0 /\ v[1] = T("{")                         \* str(value) of an ExprFormatted starts with `{`
RECURSIVE FParts(_, _, _)
FParts(e, i, flat) ==     \* the values of an ExprJoinedStr; repair v: literal text is escaped ("tq") when it has something to escape
  IF i > Len(e.kids) THEN <<>>
  ELSE (IF e.kids[i].c = "raw" THEN << <<IF FixTextEscape /\ e.kids[i].op \in {"fquote", "fbrace"} THEN "tq" ELSE "t", e.kids[i].op>> >>
        ELSE Kid(e, i, flat)) \o FParts(e, i + 1, flat)

RECURSIVE LambdaParams(_, _, _, _, _, _, _)
LambdaParams(e, i, posOnly, posOrKw, kwOnly, flat, acc) ==                        \* the loop of ExprLambda.iterate
  IF i > Len(e.ps) THEN acc \o (IF posOnly THEN <<T(", /")>> ELSE <<>>)
  ELSE LET p == e.ps[i]
           m1 == IF p.kind # "pos" /\ posOnly THEN <<T("/, ")>> ELSE <<>>
           po1 == IF p.kind # "pos" /\ posOnly THEN FALSE ELSE posOnly
           m2 == IF p.kind = "var" THEN <<T("*")>>
                 ELSE IF p.kind = "varkw" THEN <<T("**")>>
                 ELSE IF p.kind = "kwo" /\ ~kwOnly THEN <<T("*, ")>> ELSE <<>>
           d == IF p.d # 0 /\ p.kind \notin {"var", "varkw"} THEN <<T("=")>> \o Kid(e, p.d, flat) ELSE <<>>
           sep == IF i < Len(e.ps) THEN <<T(", ")>> ELSE <<>>
       IN LambdaParams(e, i + 1, IF p.kind = "pos" THEN TRUE ELSE po1,
                       posOrKw \/ (p.kind = "arg"), kwOnly \/ (p.kind \in {"var", "kwo"}), flat,
                       acc \o m1 \o m2 \o <<T(p.name)>> \o d \o sep)

RECURSIVE DictItems(_, _, _)
DictItems(e, i, flat) ==
  IF i > Len(e.kids) THEN <<>>
  ELSE (IF i > 1 THEN <<T(", ")>> ELSE <<>>)
       \o (IF e.kids[i].c = "NoneKey" THEN (IF FixDictUnpack THEN <<T("**")>> ELSE <<T("None"), T(": ")>>)      \* repair b
           ELSE Kid(e, i, flat) \o <<T(": ")>>)
       \o Kid(e, i + 1, flat)
       \o DictItems(e, i + 2, flat)

RECURSIVE CompareItems(_, _, _, _)
CompareItems(e, i, flat, first) ==                                               \* _join(zip_longest(operators, [], comparators, fillvalue=" "), " ")
  IF i > Len(e.kids) THEN <<>>
  ELSE (IF first THEN <<>> ELSE <<T(" ")>>) \o <<T(e.op), T(" ")>> \o Kid(e, i, flat) \o CompareItems(e, i + 1, flat, FALSE)

Iterate(e, flat) ==
  CASE e.c = "ExprName" -> << <<"n", e.op>> >>
    [] e.c = "lit" -> << <<"c", e.op>> >>
    [] e.c = "quoted" -> << <<"q", e.op>> >>
    [] e.c = "raw" -> << <<"t", e.op>> >>
    [] e.c = "Parsed" -> Iterate(e.kids[1], flat)            \* the builder returned the expression built from the string itself
    [] e.c = "ExprAttribute" -> JoinKids(e, 1, Len(e.kids), <<T(".")>>, flat)
    [] e.c = "ExprBinOp" -> Kid(e, 1, flat) \o <<T(" "), T(e.op), T(" ")>> \o Kid(e, 2, flat)
    [] e.c = "ExprBoolOp" -> JoinKids(e, 1, Len(e.kids), <<T(" "), T(e.op), T(" ")>>, flat)
    [] e.c = "ExprCall" ->
         IF FixGenExpParens /\ Len(e.kids) = 2 /\ e.kids[2].c = "ExprGeneratorExp"          \* repair r: the generator's parentheses are the call's
         THEN Kid(e, 1, flat) \o (IF flat THEN <<T("(")>> \o GenInner(e.kids[2], TRUE) \o <<T(")")>> ELSE << <<"e", e.kids[2]>> >>)
         ELSE Kid(e, 1, flat) \o <<T("(")>> \o JoinKids(e, 2, Len(e.kids), <<T(", ")>>, flat) \o <<T(")")>>
    [] e.c = "ExprCompare" -> Kid(e, 1, flat) \o <<T(" ")>> \o CompareItems(e, 2, flat, TRUE)
    [] e.c = "ExprComprehension" ->
         (IF e.op = "async" THEN <<T("async ")>> ELSE <<>>) \o <<T("for ")>> \o Kid(e, 1, flat) \o <<T(" in ")>> \o Kid(e, 2, flat)
         \o (IF Len(e.kids) > 2 THEN <<T(" if ")>> \o JoinKids(e, 3, Len(e.kids), <<T(" if ")>>, flat) ELSE <<>>)
    [] e.c = "ExprDict" -> <<T("{")>> \o DictItems(e, 1, flat) \o <<T("}")>>
    [] e.c = "ExprDictComp" -> <<T("{")>> \o Kid(e, 1, flat) \o <<T(": ")>> \o Kid(e, 2, flat) \o (IF FixDictCompSpace THEN <<T(" ")>> ELSE <<>>)   \* repair a
                               \o JoinKids(e, 3, Len(e.kids), <<T(" ")>>, flat) \o <<T("}")>>      \* no " " before the generators
    [] e.c = "ExprFormatted" -> <<T("{")>>
                                \o (IF FixFieldBrace /\ StartsWithBrace(e) THEN << <<"g", " ">> >> ELSE <<>>)                  \* repair u
                                \o Kid(e, 1, flat)
                                \o (IF e.op # "" THEN <<T("!"), T(e.op)>> ELSE <<>>)                                            \* repair e
                                \o (IF Len(e.kids) = 2 THEN <<T(":")>> \o JoinIt(e.kids[2].kids, <<>>, flat) ELSE <<>>)         \* repair f
                                \o <<T("}")>>
    [] e.c = "ExprGeneratorExp" -> IF FixGenExpParens THEN << <<"g", "(">> >> \o GenInner(e, flat) \o << <<"g", ")">> >> ELSE GenInner(e, flat)
    [] e.c = "ExprIfExp" -> Kid(e, 1, flat) \o <<T(" if ")>> \o Kid(e, 2, flat) \o <<T(" else ")>> \o Kid(e, 3, flat)
    [] e.c = "ExprJoinedStr" -> <<T("f'")>> \o FParts(e, 1, flat) \o <<T("'")>>
    [] e.c = "ExprKeyword" -> <<T(e.op), T("=")>> \o Kid(e, 1, flat)
    [] e.c = "ExprVarPositional" -> <<T("*")>> \o Kid(e, 1, flat)
    [] e.c = "ExprVarKeyword" -> <<T("**")>> \o Kid(e, 1, flat)
    [] e.c = "ExprLambda" -> <<T("lambda")>> \o (IF Len(e.ps) > 0 THEN <<T(" ")>> ELSE <<>>)
                             \o LambdaParams(e, 1, FALSE, FALSE, FALSE, flat, <<>>) \o <<T(": ")>> \o Kid(e, 1, flat)
    [] e.c = "ExprList" -> <<T("[")>> \o JoinKids(e, 1, Len(e.kids), <<T(", ")>>, flat) \o <<T("]")>>
    [] e.c = "ExprListComp" -> <<T("[")>> \o Kid(e, 1, flat) \o <<T(" ")>> \o JoinKids(e, 2, Len(e.kids), <<T(" ")>>, flat) \o <<T("]")>>
    [] e.c = "ExprNamedExpr" -> << <<"g", "(">> >> \o Kid(e, 1, flat) \o <<T(" := ")>> \o Kid(e, 2, flat) \o << <<"g", ")">> >>
    [] e.c = "ExprSet" -> <<T("{")>> \o JoinKids(e, 1, Len(e.kids), <<T(", ")>>, flat) \o <<T("}")>>
    [] e.c = "ExprSetComp" -> <<T("{")>> \o Kid(e, 1, flat) \o <<T(" ")>> \o JoinKids(e, 2, Len(e.kids), <<T(" ")>>, flat) \o <<T("}")>>
    [] e.c = "ExprSlice" ->      \* op = which of lower/upper/step are present
         LET hasL == e.op \in {"l", "lu", "ls", "lus"}   hasU == e.op \in {"u", "lu", "us", "lus"}   hasS == e.op \in {"s", "ls", "us", "lus"}
             iu == IF hasL THEN 2 ELSE 1   is == iu + (IF hasU THEN 1 ELSE 0)
         IN (IF hasL THEN Kid(e, 1, flat) ELSE <<>>) \o <<T(":")>> \o (IF hasU THEN Kid(e, iu, flat) ELSE <<>>)
            \o (IF hasS THEN <<T(":")>> \o Kid(e, is, flat) ELSE <<>>)
    [] e.c = "ExprSubscript" -> Kid(e, 1, flat) \o <<T("[")>> \o Kid(e, 2, flat) \o <<T("]")>>
    [] e.c = "ExprTuple" ->
         LET bare == e.imp /\ ~(FixEmptyTuple /\ e.kids = <<>>) IN                                                               \* repair c
         (IF bare THEN <<>> ELSE << <<"g", "(">> >>) \o JoinKids(e, 1, Len(e.kids), <<T(", ")>>, flat)
         \o (IF Len(e.kids) = 1 THEN <<T(",")>> ELSE <<>>) \o (IF bare THEN <<>> ELSE << <<"g", ")">> >>)
    [] e.c = "ExprUnaryOp" -> <<T(IF e.op = "not" THEN "not " ELSE e.op)>> \o Kid(e, 1, flat)
    [] e.c = "ExprYield" -> <<T("yield")>> \o (IF Len(e.kids) = 1 THEN <<T(" ")>> \o Kid(e, 1, flat) ELSE <<>>)
    [] e.c = "ExprYieldFrom" -> <<T("yield from ")>> \o Kid(e, 1, flat)

RECURSIVE Expand(_)
Expand(items) ==      \* recursive expansion of a first-layer iteration
  IF items = <<>> THEN <<>>
  ELSE (IF items[1][1] = "e" THEN Expand(Iterate(items[1][2], FALSE)) ELSE <<items[1]>>) \o Expand(Tail(items))

\* ================================================================================================
\* Reference 1/3: CPython's grammar.  A position is described by what it accepts without parentheses.
\*   min: lowest precedence level accepted (1 := .. 18 atom, table of ast.unparse / Grammar/python.gram)
\*   named/tuple/yield/gen: accepts a bare `a := b` / `a, b` / `yield` / generator expression
\*   starmin: level accepted after `*` for a Starred sitting here (0: no Starred here)
\*   sub: the slice of a subscript;  noint: `1.x` does not lex;  nolambda: `:` would start a format spec
\* ================================================================================================
Req(min, named, tuple, yield, gen, starmin) ==
  [min |-> min, named |-> named, tuple |-> tuple, yield |-> yield, gen |-> gen, starmin |-> starmin,
   sub |-> FALSE, noint |-> FALSE, nolambda |-> FALSE, paren |-> FALSE]
Q(min) == Req(min, FALSE, FALSE, FALSE, FALSE, 0)
Helper == {"keyword", "comprehension", "NoKey", "FormattedValue", "Slice", "Starred"}
Prec(n) == CASE n.t = "BinOp" -> BinLevel(n.op)
             [] n.t = "UnaryOp" -> IF n.op = "not" THEN 7 ELSE 15
             [] n.t = "BoolOp" -> IF n.op = "or" THEN 5 ELSE 6
             [] n.t = "Compare" -> 8
             [] n.t \in {"IfExp", "Lambda"} -> 4
             [] n.t \in {"Yield", "YieldFrom"} -> 3
             [] n.t = "Tuple" -> 2
             [] n.t = "NamedExpr" -> 1
             [] n.t = "GeneratorExp" -> 0
             [] OTHER -> 18
NeedsParens(req, n) ==
  CASE n.t \in Helper -> FALSE
    [] n.t = "NamedExpr" -> ~req.named
    [] n.t = "Tuple" -> ~req.tuple \/ Len(n.kids) = 0
    [] n.t \in {"Yield", "YieldFrom"} -> ~req.yield
    [] n.t = "GeneratorExp" -> ~req.gen
    [] n.t = "Lambda" -> req.nolambda \/ 4 < req.min
    [] n.t = "Const" -> n.op = "int" /\ req.noint
    [] OTHER -> Prec(n) < req.min

TopReq == IF top = "value" THEN Req(4, FALSE, TRUE, TRUE, FALSE, 0) ELSE Q(4)
NL(r, req) == IF req.nolambda THEN [r EXCEPT !.nolambda = TRUE] ELSE r     \* still at bracket depth 0 of a replacement field
KidReq(n, i, req) ==     \* what kid i of n accepts (req: what n itself sits in - matters for helpers and bare tuples)
  CASE n.t = "Attribute" -> [Q(18) EXCEPT !.noint = TRUE]
    [] n.t = "BinOp" -> IF n.op = "**" THEN (IF i = 1 THEN Q(17) ELSE Q(15)) ELSE Q(BinLevel(n.op) + (IF i = 1 THEN 0 ELSE 1))
    [] n.t = "BoolOp" -> IF n.op = "or" THEN Q(6) ELSE Q(7)
    [] n.t = "Call" -> IF i = 1 THEN Q(18) ELSE Req(4, TRUE, FALSE, FALSE, Len(n.kids) = 2, 4)
    [] n.t = "keyword" -> Q(4)
    [] n.t = "Compare" -> Q(9)
    [] n.t = "comprehension" -> IF i = 1 THEN Req(18, FALSE, TRUE, FALSE, FALSE, 0) ELSE Q(5)
    [] n.t = "Dict" -> IF i % 2 = 0 /\ n.kids[i - 1].t = "NoKey" THEN Q(9) ELSE Q(4)
    [] n.t = "DictComp" -> Q(4)
    [] n.t \in {"GeneratorExp", "ListComp", "SetComp"} -> Req(4, TRUE, FALSE, FALSE, FALSE, 0)
    [] n.t = "IfExp" -> IF i = 3 THEN NL(Q(4), req) ELSE Q(5)
    [] n.t = "JoinedStr" -> Q(4)
    [] n.t = "FormattedValue" -> [Req(4, FALSE, TRUE, TRUE, FALSE, 0) EXCEPT !.nolambda = TRUE]
    [] n.t = "Lambda" -> Q(4)
    [] n.t \in {"List", "Set"} -> Req(4, TRUE, FALSE, FALSE, FALSE, 9)
    [] n.t = "NamedExpr" -> Q(4)
    [] n.t = "Slice" -> Q(4)
    [] n.t = "Starred" -> NL(Q(req.starmin), req)
    [] n.t = "Subscript" -> IF i = 1 THEN Q(18) ELSE [Req(4, TRUE, TRUE, FALSE, FALSE, 0) EXCEPT !.sub = TRUE]
    [] n.t = "Tuple" -> IF req.tuple /\ ~req.paren /\ Len(n.kids) > 0                   \* bare
                        THEN (IF req.sub THEN Req(4, TRUE, FALSE, FALSE, FALSE, 4) ELSE NL(Req(4, FALSE, FALSE, FALSE, FALSE, 9), req))
                        ELSE Req(4, TRUE, FALSE, FALSE, FALSE, 9)
    [] n.t = "UnaryOp" -> IF n.op = "not" THEN Q(7) ELSE Q(15)
    [] n.t = "Yield" -> NL(Req(4, FALSE, TRUE, FALSE, FALSE, 0), req)
    [] n.t = "YieldFrom" -> NL(Q(4), req)
    [] n.t = "Const" -> req                                                               \* a parsed string: its content sits where the string sat

SlotName(n, i) ==
  CASE n.t = "Attribute" -> "value"
    [] n.t = "BinOp" -> IF i = 1 THEN "left" ELSE "right"
    [] n.t = "BoolOp" -> IF i = 1 THEN "first" ELSE "rest"
    [] n.t = "Call" -> IF i = 1 THEN "func" ELSE IF Len(n.kids) = 2 THEN "solearg" ELSE "arg"
    [] n.t = "Compare" -> IF i = 1 THEN "left" ELSE "comparator"
    [] n.t = "comprehension" -> IF i = 1 THEN "target" ELSE IF i = 2 THEN "iter" ELSE "if"
    [] n.t = "Dict" -> IF i % 2 = 1 THEN "key" ELSE IF n.kids[i - 1].t = "NoKey" THEN "unpack" ELSE "value"
    [] n.t = "DictComp" -> IF i = 1 THEN "key" ELSE IF i = 2 THEN "value" ELSE "generator"
    [] n.t \in {"GeneratorExp", "ListComp", "SetComp"} -> IF i = 1 THEN "elt" ELSE "generator"
    [] n.t = "IfExp" -> IF i = 1 THEN "body" ELSE IF i = 2 THEN "test" ELSE "orelse"
    [] n.t = "FormattedValue" -> IF i = 1 THEN "value" ELSE "format_spec"
    [] n.t = "Lambda" -> IF i = 1 THEN "body" ELSE "default"
    [] n.t \in {"List", "Set", "Tuple"} -> "elt"
    [] n.t = "NamedExpr" -> IF i = 1 THEN "target" ELSE "value"
    [] n.t = "Slice" -> "bound"
    [] n.t = "Subscript" -> IF i = 1 THEN "value" ELSE "slice"
    [] n.t = "UnaryOp" -> "operand"
    [] OTHER -> "value"
PClass(n) ==      \* precedence class of an operator node (vocabulary of the findings)
  CASE n.t = "BinOp" -> (CASE n.op = "|" -> "bor" [] n.op = "^" -> "bxor" [] n.op = "&" -> "band" [] n.op \in {"<<", ">>"} -> "shift"
                           [] n.op \in {"+", "-"} -> "arith" [] n.op = "**" -> "power" [] OTHER -> "term")
    [] n.t = "UnaryOp" -> IF n.op = "not" THEN "not" ELSE "factor"
    [] n.t = "BoolOp" -> n.op
    [] OTHER -> ""

\* ================================================================================================
\* Reference 2/3: string annotations.  ty: the position is a type position of an annotation (the annotation itself,
\* subscript slices and their tuple / list elements, operands of `|`); lit: below the slice of Literal[...].
\* ================================================================================================
IsLiteralNode(n) == (n.t = "Name" /\ n.op = "Literal")
                    \/ (n.t = "Attribute" /\ n.op = "Literal" /\ n.kids[1].t = "Name" /\ n.kids[1].op = "t")
KidTy(n, i, ty) == CASE n.t = "Subscript" -> ty /\ i = 2
                     [] n.t \in {"Tuple", "List"} -> ty
                     [] n.t = "BinOp" -> ty /\ n.op = "|"
                     [] n.t = "Const" -> ty
                     [] OTHER -> FALSE
KidLit(n, i, lit) == lit \/ (n.t = "Subscript" /\ i = 2 /\ IsLiteralNode(n.kids[1]))
ShouldParse(n, ty, lit) == P0 /\ ty /\ ~lit

\* alignment of the built expression with the ast node (ExprAttribute is a flattened chain)
KidExpr(n, e, i) == IF e.c = "none" THEN e ELSE IF n.t = "Attribute" /\ e.c = "ExprAttribute" /\ Len(e.kids) > 2
                    THEN [e EXCEPT !.kids = SubSeq(e.kids, 1, Len(e.kids) - 1)] ELSE e.kids[i]
Grouped(e) == \/ e.c = "ExprNamedExpr" \/ (e.c = "ExprTuple" /\ (~e.imp \/ (FixEmptyTuple /\ e.kids = <<>>)))
              \/ (FixGenExpParens /\ e.c = "ExprGeneratorExp")
IsStrNode(n) == n.t = "Const" /\ n.op = "str"

ParenReq == [Req(1, TRUE, TRUE, TRUE, TRUE, 0) EXCEPT !.paren = TRUE]      \* inside ( ... ) everything is accepted
Ctx(ty, lit, instr) == [ty |-> ty, lit |-> lit, instr |-> instr, inspec |-> FALSE]
KidCtx(n, i, cx) ==      \* inspec: a replacement field of a format spec (`{{` is not an escape there)
  IF IsStrNode(n) THEN Ctx(cx.ty, FALSE, TRUE)
  ELSE [Ctx(KidTy(n, i, cx.ty), KidLit(n, i, cx.lit), cx.instr)
          EXCEPT !.inspec = IF n.t = "FormattedValue" THEN i = 2 ELSE IF n.t = "JoinedStr" THEN cx.inspec ELSE FALSE]
Me(n, pt) == IF n.t \in Helper THEN [pt EXCEPT !.via = n.t] ELSE IF IsStrNode(n) THEN pt ELSE [t |-> n.t, c |-> PClass(n), lvl |-> Prec(n), via |-> ""]
TopPt == [t |-> "Top", c |-> "", lvl |-> 0, via |-> ""]

\* ================================================================================================
\* Reference 3/3: the rendering the property demands (minimal parentheses, <<"g", _>> = grouping parenthesis).
\* It follows the string decisions the code made (e.c = "Parsed"); those decisions are judged separately.
\* ================================================================================================
G(x) == << <<"g", x>> >>
RECURSIVE RefRender(_, _, _)
RECURSIVE Bare(_, _, _)
RECURSIVE RefJoin(_, _, _, _, _, _)
RefJoin(n, e, r, from, to, joint) ==      \* kids from..to joined
  IF from > to THEN <<>>
  ELSE RefRender(n.kids[from], KidExpr(n, e, from), KidReq(n, from, r))
       \o (IF from < to THEN joint ELSE <<>>) \o RefJoin(n, e, r, from + 1, to, joint)
RECURSIVE RefDict(_, _, _, _)
RefDict(n, e, r, i) ==
  IF i > Len(n.kids) THEN <<>>
  ELSE (IF i > 1 THEN <<T(", ")>> ELSE <<>>)
       \o (IF n.kids[i].t = "NoKey" THEN <<T("**")>> ELSE RefRender(n.kids[i], KidExpr(n, e, i), KidReq(n, i, r)) \o <<T(": ")>>)
       \o RefRender(n.kids[i + 1], KidExpr(n, e, i + 1), KidReq(n, i + 1, r)) \o RefDict(n, e, r, i + 2)
RECURSIVE RefCompare(_, _, _, _)
RefCompare(n, e, r, i) ==
  IF i > Len(n.kids) THEN <<>>
  ELSE (IF i > 2 THEN <<T(" ")>> ELSE <<>>) \o <<T(n.op), T(" ")>> \o RefRender(n.kids[i], KidExpr(n, e, i), KidReq(n, i, r)) \o RefCompare(n, e, r, i + 1)
RECURSIVE RefLambda(_, _, _, _)
RefLambda(n, e, r, i) ==     \* `/` after the last positional-only, `*` before the first keyword-only unless *args is there
  IF i > Len(n.ps) THEN <<>>
  ELSE LET p == n.ps[i]
           prevPos == i > 1 /\ n.ps[i - 1].kind = "pos"
           hasVar == \E j \in 1..Len(n.ps) : n.ps[j].kind = "var"
           firstKwo == p.kind = "kwo" /\ (i = 1 \/ n.ps[i - 1].kind # "kwo")
       IN (IF p.kind # "pos" /\ prevPos THEN <<T("/, ")>> ELSE <<>>)
          \o (IF p.kind = "var" THEN <<T("*")>> ELSE IF p.kind = "varkw" THEN <<T("**")>> ELSE IF firstKwo /\ ~hasVar THEN <<T("*, ")>> ELSE <<>>)
          \o <<T(p.name)>>
          \o (IF p.d # 0 THEN <<T("=")>> \o RefRender(n.kids[p.d], KidExpr(n, e, p.d), KidReq(n, p.d, r)) ELSE <<>>)
          \o (IF i < Len(n.ps) THEN <<T(", ")>> ELSE IF p.kind = "pos" THEN <<T(", /")>> ELSE <<>>)
          \o RefLambda(n, e, r, i + 1)
RECURSIVE RefFParts(_, _, _, _)
RefFParts(n, e, r, i) ==     \* the parts of a JoinedStr (e may be shorter/absent for a format spec the code never built)
  IF i > Len(n.kids) THEN <<>>
  ELSE RefRender(n.kids[i], IF e.c = "none" THEN e ELSE e.kids[i], KidReq(n, i, r)) \o RefFParts(n, e, r, i + 1)
NoExpr == X("none", "", <<>>)

RefRender(n, e, req) ==
  IF IsStrNode(n) /\ e.c = "Parsed" THEN RefRender(n.kids[1], e.kids[1], req)
  ELSE IF NeedsParens(req, n) THEN G("(") \o Bare(n, e, ParenReq) \o G(")")
  ELSE Bare(n, e, req)

Bare(n, e, r) ==
  LET K(i) == RefRender(n.kids[i], IF e.c = "none" THEN e ELSE KidExpr(n, e, i), KidReq(n, i, r)) IN
  CASE n.t = "Name" -> << <<"n", n.op>> >>
    [] n.t = "Const" -> IF n.op \in {"str", "strbad"} THEN << <<"q", n.op>> >>
                        ELSE IF n.op \in {"ftxt", "fspec"} THEN << <<"t", n.op>> >>
                        ELSE IF n.op \in {"fquote", "fbrace"} THEN << <<"tq", n.op>> >>     \* text that must be escaped
                        ELSE << <<"c", n.op>> >>
    [] n.t = "Attribute" -> K(1) \o <<T("."), <<"n", n.op>> >>
    [] n.t = "BinOp" -> K(1) \o <<T(" "), T(n.op), T(" ")>> \o K(2)
    [] n.t = "BoolOp" -> RefJoin(n, e, r, 1, Len(n.kids), <<T(" "), T(n.op), T(" ")>>)
    [] n.t = "Call" -> K(1) \o <<T("(")>> \o RefJoin(n, e, r, 2, Len(n.kids), <<T(", ")>>) \o <<T(")")>>
    [] n.t = "keyword" -> (IF n.op = "**" THEN <<T("**")>> ELSE <<T(n.op), T("=")>>) \o K(1)
    [] n.t = "Compare" -> K(1) \o <<T(" ")>> \o RefCompare(n, e, r, 2)
    [] n.t = "comprehension" -> (IF n.op = "async" THEN <<T("async ")>> ELSE <<>>) \o <<T("for ")>> \o K(1) \o <<T(" in ")>> \o K(2)
                                \o (IF Len(n.kids) > 2 THEN <<T(" if ")>> \o RefJoin(n, e, r, 3, Len(n.kids), <<T(" if ")>>) ELSE <<>>)
    [] n.t = "Dict" -> <<T("{")>> \o RefDict(n, e, r, 1) \o <<T("}")>>
    [] n.t = "DictComp" -> <<T("{")>> \o K(1) \o <<T(": ")>> \o K(2) \o <<T(" ")>> \o RefJoin(n, e, r, 3, Len(n.kids), <<T(" ")>>) \o <<T("}")>>
    [] n.t = "FormattedValue" ->
         LET v == K(1) IN
         <<T("{")>> \o (IF v[1] = T("{") THEN G(" ") ELSE <<>>) \o v      \* `{ {` : a separator that only disambiguates, like a parenthesis
         \o (IF n.op # "" THEN <<T("!"), T(n.op)>> ELSE <<>>)
         \o (IF Len(n.kids) = 2 THEN <<T(":")>> \o RefFParts(n.kids[2], IF e.c # "none" /\ Len(e.kids) = 2 THEN e.kids[2] ELSE NoExpr, r, 1) ELSE <<>>) \o <<T("}")>>
    [] n.t = "GeneratorExp" -> K(1) \o <<T(" ")>> \o RefJoin(n, e, r, 2, Len(n.kids), <<T(" ")>>)
    [] n.t = "IfExp" -> K(1) \o <<T(" if ")>> \o K(2) \o <<T(" else ")>> \o K(3)
    [] n.t = "JoinedStr" -> <<T("f'")>> \o RefFParts(n, e, r, 1) \o <<T("'")>>
    [] n.t = "Lambda" -> <<T("lambda")>> \o (IF Len(n.ps) > 0 THEN <<T(" ")>> ELSE <<>>) \o RefLambda(n, e, r, 1) \o <<T(": ")>> \o K(1)
    [] n.t = "List" -> <<T("[")>> \o RefJoin(n, e, r, 1, Len(n.kids), <<T(", ")>>) \o <<T("]")>>
    [] n.t = "ListComp" -> <<T("[")>> \o K(1) \o <<T(" ")>> \o RefJoin(n, e, r, 2, Len(n.kids), <<T(" ")>>) \o <<T("]")>>
    [] n.t = "NamedExpr" -> K(1) \o <<T(" := ")>> \o K(2)
    [] n.t = "Set" -> <<T("{")>> \o RefJoin(n, e, r, 1, Len(n.kids), <<T(", ")>>) \o <<T("}")>>
    [] n.t = "SetComp" -> <<T("{")>> \o K(1) \o <<T(" ")>> \o RefJoin(n, e, r, 2, Len(n.kids), <<T(" ")>>) \o <<T("}")>>
    [] n.t = "Slice" ->
         LET hasL == n.op \in {"l", "lu", "ls", "lus"}   hasU == n.op \in {"u", "lu", "us", "lus"}   hasS == n.op \in {"s", "ls", "us", "lus"}
             iu == IF hasL THEN 2 ELSE 1   is == iu + (IF hasU THEN 1 ELSE 0)
         IN (IF hasL THEN K(1) ELSE <<>>) \o <<T(":")>> \o (IF hasU THEN K(iu) ELSE <<>>) \o (IF hasS THEN <<T(":")>> \o K(is) ELSE <<>>)
    [] n.t = "Starred" -> <<T("*")>> \o K(1)
    [] n.t = "Subscript" -> K(1) \o <<T("[")>> \o K(2) \o <<T("]")>>
    [] n.t = "Tuple" -> RefJoin(n, e, r, 1, Len(n.kids), <<T(", ")>>) \o (IF Len(n.kids) = 1 THEN <<T(",")>> ELSE <<>>)
    [] n.t = "UnaryOp" -> <<T(IF n.op = "not" THEN "not " ELSE n.op)>> \o K(1)
    [] n.t = "Yield" -> <<T("yield")>> \o (IF Len(n.kids) = 1 THEN <<T(" ")>> \o K(1) ELSE <<>>)
    [] n.t = "YieldFrom" -> <<T("yield from ")>> \o K(1)

\* ---- the walk: every edge of the tree the code actually built (strings it re-parsed are followed) -----------------
Rec(clause, cause, pt, pos, child, rel) ==      \* sev: "breaks" the property / "cosmetic" (differs from the reference text only)
  [clause |-> clause, cause |-> cause, sev |-> "breaks", parent |-> pt.t, pclass |-> pt.c, via |-> pt.via, pos |-> pos, child |-> child, rel |-> rel]
RECURSIVE Walk(_, _, _, _, _, _, _)
Walk(n, e, req, pt, pos, cx, w) ==  \* set of defect records at and below n; (pt, pos): parent and slot of n;
                                    \* w: the parent's iterate already wraps this operand in parentheses (repairs d, p)
  LET sp == ShouldParse(n, cx.ty, cx.lit)
      here ==
        IF IsStrNode(n) THEN
           (IF e.c = "Parsed" /\ ~sp
            THEN {Rec("strings", IF ~P0 THEN "parsed-although-postponed" ELSE IF cx.lit THEN "parsed-under-literal" ELSE "parsed-outside-type-position",
                      pt, pos, "Const", "")}
            ELSE IF e.c # "Parsed" /\ sp
            THEN {Rec("strings", IF cx.instr THEN "nested-string-not-parsed" ELSE "not-parsed", pt, pos, "Const", "")}
            ELSE {})
        ELSE IF NeedsParens(req, n) /\ ~Grouped(e) /\ ~w
        THEN {Rec("grouping",
                  CASE n.t = "Tuple" -> IF Len(n.kids) = 0 /\ req.sub THEN "empty-slice-tuple" ELSE "in_subscript-leak"
                    [] n.t \in {"Yield", "YieldFrom"} -> "bare-yield"
                    [] n.t = "GeneratorExp" -> "bare-genexp"
                    [] n.t = "Const" -> "int-attribute"
                    [] n.t = "Lambda" /\ req.min <= 4 -> "lambda-in-fstring"
                    [] OTHER -> "precedence",
                  pt, pos, n.t,
                  IF n.t \in {"Tuple", "Yield", "YieldFrom", "GeneratorExp", "Const"} THEN ""
                  ELSE IF req.min >= 17 THEN "primary" ELSE IF pt.lvl = Prec(n) THEN "equal" ELSE "lower")}
        ELSE {}
      text ==
        CASE n.t = "DictComp" -> IF FixDictCompSpace THEN {} ELSE {"dictcomp-no-space"}
          [] n.t = "NoKey" -> IF FixDictUnpack THEN {} ELSE {"dict-unpack-none"}
          [] n.t = "FormattedValue" ->
               (IF n.op # "" /\ e.op = "" THEN {"fstring-conversion-dropped"} ELSE {})
               \cup (IF Len(n.kids) = 2 /\ Len(e.kids) = 1 THEN {"fstring-format-spec-dropped"} ELSE {})
               \cup (IF ~cx.inspec /\ ~FixFieldBrace /\ StartsWithBrace(e) THEN {"fstring-brace-start"} ELSE {})     \* what is rendered starts with `{{`
          [] n.t = "Const" /\ n.op \in {"fquote", "fbrace"} /\ e.c = "raw" /\ ~FixTextEscape -> {"fstring-text-unescaped"}
          [] n.t = "Const" /\ n.op \in {"ftxt", "fquote", "fbrace", "fspec"} /\ e.c # "raw" -> {"in_formatted_str-leak"}
          [] OTHER -> {}
      lastOfValue == IF n.t = "DictComp" THEN LET v == Iterate(e.kids[2], TRUE) IN (IF Len(v) > 0 THEN v[Len(v)] ELSE <<"s", "">>) ELSE <<"s", "">>
      glued == lastOfValue[1] = "n" \/ lastOfValue = <<"c", "none">> \/ lastOfValue = T("yield")      \* `bfor`, `Nonefor`, `yieldfor`
      textrecs == {[Rec("text", c, [t |-> IF n.t = "NoKey" THEN "Dict" ELSE IF n.t = "Const" THEN "JoinedStr" ELSE n.t, c |-> "", lvl |-> 0, via |-> ""], "", "", "") EXCEPT !.sev = IF c = "dictcomp-no-space" /\ ~glued THEN "cosmetic" ELSE "breaks"] : c \in text}
      inner == IF IsStrNode(n) THEN req ELSE IF Grouped(e) \/ w \/ NeedsParens(req, n) THEN ParenReq ELSE req
      kids == IF IsStrNode(n) THEN (IF e.c = "Parsed" THEN {1} ELSE {})
              ELSE IF n.t = "FormattedValue" THEN 1..Len(e.kids)          \* the format spec is never built (unless repair f)
              ELSE 1..Len(n.kids)
      wkid(i) == IF IsStrNode(n) THEN w                                   \* the content of a re-parsed string sits where the string sat
                 ELSE IF n.t = "Attribute" /\ e.c = "ExprAttribute" /\ Len(e.kids) > 2 THEN FALSE    \* inner link of a flattened chain
                 ELSE Wrapped(e, i) \/ (FixYieldParens /\ IsYieldExpr(e.kids[i]))                 \* _operand / _yield
  IN here \cup textrecs \cup
     UNION { Walk(n.kids[i], KidExpr(n, e, i), KidReq(n, i, inner), Me(n, pt),
                  IF IsStrNode(n) THEN pos ELSE SlotName(n, i), KidCtx(n, i, cx), wkid(i)) : i \in kids }

RECURSIVE NamesOf(_, _)
RECURSIVE NamesOfKids(_, _, _)
NamesOfKids(n, e, is) == IF is = <<>> THEN <<>> ELSE NamesOf(n.kids[is[1]], KidExpr(n, e, is[1])) \o NamesOfKids(n, e, Tail(is))
NamesOf(n, e) ==        \* the names the source refers to, in source order (strings the code re-parsed are followed)
  CASE n.t = "Name" -> <<n.op>>
    [] n.t = "Attribute" -> NamesOf(n.kids[1], KidExpr(n, e, 1)) \o <<n.op>>
    [] IsStrNode(n) -> IF e.c = "Parsed" THEN NamesOf(n.kids[1], e.kids[1]) ELSE <<>>
    [] n.t = "Const" -> <<>>
    [] n.t = "Lambda" -> NamesOfKids(n, e, [i \in 1..(Len(n.kids) - 1) |-> i + 1]) \o NamesOf(n.kids[1], KidExpr(n, e, 1))
    [] n.t = "FormattedValue" -> NamesOf(n.kids[1], KidExpr(n, e, 1)) \o (IF Len(n.kids) = 2 THEN NamesOf(n.kids[2], IF Len(e.kids) = 2 THEN e.kids[2] ELSE NoExpr) ELSE <<>>)
    [] OTHER -> NamesOfKids(n, e, [i \in 1..Len(n.kids) |-> i])

\* the source with the strings the code re-parsed (ITree) / the property wants parsed (RTree) replaced by their content
RECURSIVE ITree(_, _)
ITree(n, e) == IF IsStrNode(n) THEN (IF e.c = "Parsed" THEN ITree(n.kids[1], e.kids[1]) ELSE n)
               ELSE IF e.c = "none" THEN n
               ELSE IF n.t = "FormattedValue" THEN [n EXCEPT !.kids = [i \in 1..Len(n.kids) |-> IF i <= Len(e.kids) THEN ITree(n.kids[i], e.kids[i]) ELSE n.kids[i]]]
               ELSE [n EXCEPT !.kids = [i \in 1..Len(n.kids) |-> ITree(n.kids[i], KidExpr(n, e, i))]]
RECURSIVE RTree(_, _)
RTree(n, cx) == IF IsStrNode(n) THEN (IF ShouldParse(n, cx.ty, cx.lit) THEN RTree(n.kids[1], KidCtx(n, 1, cx)) ELSE n)
                ELSE [n EXCEPT !.kids = [i \in 1..Len(n.kids) |-> RTree(n.kids[i], KidCtx(n, i, cx))]]

\* ================================================================================================
\* Cases
\* ================================================================================================
L(s_, k_) == [s |-> s_, k |-> k_]
ValidEdge(p, k, c) == TargetSlot(p, k) => c \in TargetShapes
AllShapes == <<"Name", "Int", "Float", "None", "Ellipsis", "Bytes", "StrName", "StrTuple", "StrOr", "StrNested", "StrBad", "Attribute",
               "|", "^", "&", "<<", ">>", "+", "-", "*", "/", "//", "%", "@", "**", "Or", "And", "Or3", "Call0", "Call1", "Call2", "CallKw", "CallStar",
               "Compare", "Compare2", "Dict", "DictUnpack", "DictComp", "GeneratorExp", "ListComp", "SetComp", "ListCompIf", "ListComp2", "IfExp",
               "FStr", "FStrTxt", "FStrQuote", "FStrBrace", "FStrConv", "FStrSpec", "Lambda0", "LambdaDef", "LambdaPart", "List", "List1", "List0", "ListStar",
               "Set", "SetStar", "NamedExpr", "Subscript", "SubTuple", "SubStar", "SubSlice", "SubSliceU", "SubSliceS", "SubSliceTuple",
               "SubLiteral", "SubLiteral2", "SubLiteralSub", "Tuple", "Tuple1", "Tuple0", "TupleStar", "Not", "USub", "Invert", "UAdd", "Yield0", "Yield", "YieldFrom">>
PIdx == {i \in 1..Len(AllShapes) : AllShapes[i] \in ParentShapes}
CIdx == {i \in 1..Len(AllShapes) : AllShapes[i] \in ChildShapes}
NSlots(s) == Len(SlotsOf(s))
AnyShape == {i \in 1..Len(AllShapes) : AllShapes[i] \in ChildShapes \cup ParentShapes \cup BinOps}
P2Idx == {i \in 1..Len(AllShapes) : AllShapes[i] \in ParentShapes \cup BinOps}
IsChain(ch) ==      \* the case space of the configured depth, written as nested choices (TLC enumerates them without building the set)
  IF Depth <= 2
  THEN \/ \E ic \in AnyShape : ch = <<L(AllShapes[ic], 0)>>
       \/ \E ip \in P2Idx : \E k \in 1..NSlots(AllShapes[ip]) : \E ic \in CIdx :
             /\ ValidEdge(AllShapes[ip], k, AllShapes[ic])
             /\ ch = <<L(AllShapes[ip], k), L(AllShapes[ic], 0)>>
  ELSE \E ip \in PIdx : \E k \in 1..NSlots(AllShapes[ip]) : \E iq \in PIdx : \E j \in 1..NSlots(AllShapes[iq]) : \E ic \in CIdx :
             /\ (ip * 7 + k * 13 + iq * 31 + j * 17 + ic * 3) % Stride = Offset          \* Stride > 1: a sample
             /\ ValidEdge(AllShapes[ip], k, AllShapes[iq]) /\ ValidEdge(AllShapes[iq], j, AllShapes[ic])
             /\ (TargetSlot(AllShapes[ip], k) /\ AllShapes[iq] \in {"Tuple", "List"}) => AllShapes[ic] \in TargetShapes   \* elements of a target are targets
             /\ ch = <<L(AllShapes[ip], k), L(AllShapes[iq], j), L(AllShapes[ic], 0)>>

\* lambda parameter lists (Family = "lambda"): the space of Params.tla, with the defaults as expressions
LamCase(npos, narg, ndef, var, nkw, kwm, varkw) ==
  LET n == npos + narg
      PN == <<"p1", "p2", "p3">>  AN == <<"x1", "x2", "x3", "x4">>  KN == <<"k1", "k2">>
      dpos(j) == IF j > n - ndef THEN 1 + (j - (n - ndef)) ELSE 0
      nkd(i) == Cardinality({m \in 1..i : kwm[m]})
      ps == [j \in 1..npos |-> Par(PN[j], "pos", dpos(j))] \o [j \in 1..narg |-> Par(AN[j], "arg", dpos(npos + j))]
            \o (IF var THEN <<Par("va", "var", 0)>> ELSE <<>>)
            \o [i \in 1..nkw |-> Par(KN[i], "kwo", IF kwm[i] THEN 1 + ndef + nkd(i) ELSE 0)]
            \o (IF varkw THEN <<Par("kw", "varkw", 0)>> ELSE <<>>)
      DV == <<Nm("d1"), Nm("d2"), Nm("d3"), Nm("d4"), Nm("d5"), Nm("d6"), Nm("d7"), Nm("d8"), Nm("d9")>>
  IN Lam(ps, <<Nm("body")>> \o [i \in 1..(ndef + nkd(nkw)) |-> DV[i]])
LamCases(mp, ma) ==     \* every count of defaults: 0..npos+narg (the tail of positional-only ++ positional-or-keyword)
  UNION {UNION {{LamCase(npos, narg, ndef, var, nkw, kwm, varkw) : kwm \in [1..nkw -> BOOLEAN]} :
                  ndef \in 0..(npos + narg), nkw \in 0..2} :
         npos \in 0..mp, narg \in 0..ma, var \in BOOLEAN, varkw \in BOOLEAN}

\* ---- the domain on which the unchanged code satisfies every clause (defined on the source tree only) ---------------
RECURSIVE StartsBrace(_, _)
StartsBrace(n, req) ==      \* the rendering begins with `{` (which doubles the brace of a replacement field)
  IF NeedsParens(req, n) \/ n.t = "NamedExpr" THEN FALSE
  ELSE \/ n.t \in {"Dict", "Set", "DictComp", "SetComp"}
       \/ (n.t \in {"BinOp", "BoolOp", "Compare", "IfExp", "Attribute", "Subscript", "Call", "GeneratorExp"} \/ (n.t = "Tuple" /\ Len(n.kids) > 0))
          /\ StartsBrace(n.kids[1], KidReq(n, 1, req))
RECURSIVE CleanWalk(_, _, _, _)
CleanWalk(n, req, s, f) ==  \* s: below a subscript slice with no tuple / subscript value / lambda default in between
                            \* f: below the value of a replacement field of an f-string (same exceptions)
  /\ n.t \notin {"DictComp", "NoKey"}
  /\ ~(n.t = "Const" /\ n.op \in {"fquote", "fbrace", "str", "strbad"})
  /\ ~(n.t = "Const" /\ n.op \in {"ftxt", "fspec"} /\ f)
  /\ n.t = "FormattedValue" => (n.op = "" /\ Len(n.kids) = 1 /\ n.kids[1].t # "Lambda" /\ ~StartsBrace(n.kids[1], KidReq(n, 1, req)))
  /\ IF n.t = "Tuple" THEN (s => (req.sub /\ Len(n.kids) > 0))
     ELSE IF n.t = "NamedExpr" THEN TRUE ELSE ~NeedsParens(req, n)
  /\ \A i \in 1..Len(n.kids) :
       CleanWalk(n.kids[i], KidReq(n, i, IF n.t \in {"Tuple", "NamedExpr"} /\ ~(n.t = "Tuple" /\ req.sub) THEN ParenReq ELSE req),
                 IF n.t = "Subscript" THEN i = 2
                 ELSE IF n.t = "Tuple" \/ (n.t = "Lambda" /\ i > 1) THEN FALSE ELSE s,
                 IF n.t = "FormattedValue" THEN TRUE ELSE IF n.t = "Lambda" /\ i > 1 THEN FALSE ELSE f)
Clean == CleanWalk(tree, TopReq, FALSE, FALSE)

\* ================================================================================================
\* Behaviour: pick a case, then the three steps of the code path (build, iterate, judge)
\* ================================================================================================
Init ==
  /\ top \in {"value", "annotation"}
  /\ P0 \in BOOLEAN
  /\ P0 => top = "annotation"                       \* values, defaults, decorators, bases: parse_strings=False
  /\ IF Family = "lambda" THEN chain = <<>> /\ ~P0 /\ top = "value" ELSE IsChain(chain)
  /\ tree = <<>> /\ pc = "source"
  /\ built = <<>> /\ impl = <<>> /\ layer = <<>> /\ ref = <<>> /\ bad = {} /\ srcnames = <<>>

AstParse ==            \* the source is parsed: the ast node of the case (cases outside the configured domain stop here)
  /\ pc = "source"
  /\ \E t \in (IF Family = "lambda" THEN LamCases(Depth, Depth + 1) ELSE {Compose(chain, 1)}) :
        /\ tree' = t
        /\ pc' = IF \/ (Family # "lambda" /\ top = "annotation" /\ ~HasStr(t) /\ Len(chain) > 1)   \* identical to the "value" case
                     \/ (P0 /\ ~HasStr(t))
                  THEN "skip" ELSE "case"
  /\ UNCHANGED <<top, P0, chain, built, impl, layer, ref, bad, srcnames>>

InDomain == Domain = "all" \/ (Domain = "clean" /\ Clean) \/ (Domain = "defect" /\ ~Clean)

GetExpression ==       \* get_expression(node, parent, parse_strings=P0) -> _build(node, parent, parse_strings=P0)
  /\ pc = "case" /\ InDomain
  /\ built' = Build(tree, Env(P0, FALSE, FALSE, FALSE, FALSE))
  /\ pc' = "built"
  /\ UNCHANGED <<casevars, impl, layer, ref, bad, srcnames>>

IterateExpr ==         \* list(expr.iterate(flat=True)) (= the pieces of str(expr)) and list(expr.iterate(flat=False))
  /\ pc = "built"
  /\ impl' = Iterate(built, TRUE)
  /\ layer' = Iterate(built, FALSE)
  /\ pc' = "iterated"
  /\ UNCHANGED <<casevars, built, ref, bad, srcnames>>

Sel(items, kind) == SelectSeq(items, LAMBDA x : x[1] = kind)
NameTokens(items) == [i \in 1..Len(Sel(items, "n")) |-> Sel(items, "n")[i][2]]
RECURSIVE HasSpec(_)
HasSpec(n) == (n.t = "FormattedValue" /\ Len(n.kids) = 2) \/ \E i \in 1..Len(n.kids) : HasSpec(n.kids[i])
Judge ==
  /\ pc = "iterated"
  /\ ref' = RefRender(tree, built, TopReq)
  /\ srcnames' = NamesOf(tree, built)
  /\ bad' = Walk(tree, built, TopReq, TopPt, "top", Ctx(top = "annotation", FALSE, FALSE), FALSE)
            \cup (IF NameTokens(impl) # NamesOf(tree, built)
                  THEN {Rec("names", IF HasSpec(tree) /\ ~FixFormatSpec THEN "fstring-format-spec-dropped" ELSE "unexplained", [TopPt EXCEPT !.t = "FormattedValue"], "", "", "")} ELSE {})
  /\ pc' = "done"
  /\ UNCHANGED <<casevars, built, impl, layer>>

Next == AstParse \/ GetExpression \/ IterateExpr \/ Judge
Spec == Init /\ [][Next]_vars

\* ================================================================================================
\* The clauses of the property
\* ================================================================================================
Done == pc = "done"
Strip(items) == SelectSeq(items, LAMBDA x : x[1] # "g")
KnownCauses == {"precedence", "bare-genexp", "bare-yield", "in_subscript-leak", "empty-slice-tuple", "int-attribute", "lambda-in-fstring",
                "dictcomp-no-space", "dict-unpack-none", "fstring-conversion-dropped", "fstring-format-spec-dropped", "fstring-brace-start",
                "fstring-text-unescaped", "in_formatted_str-leak", "parsed-outside-type-position", "nested-string-not-parsed"}

\* (iv) flat iteration yields exactly the pieces of the string: expanding the first layer recursively gives the flat one
Plain(items) == [i \in 1..Len(items) |-> IF items[i][1] = "g" THEN <<"s", items[i][2]>> ELSE items[i]]    \* a parenthesis is a parenthesis
FlatIsExpansion == pc \in {"iterated", "done"} => Plain(Expand(layer)) = Plain(impl)
\* (i)-(v) on the clean domain: parentheses wherever CPython needs them, same text, names, strings
CleanHolds == (Done /\ Clean) => bad = {}
NoDefect == Done => bad = {}                       \* expected to be violated outside the clean domain
\* which repair closes a defect record (vocabulary: the fix flags of findings.d/C03.json)
FlagOf(b) == CASE b.cause = "precedence" -> IF b.pos = "unpack" THEN "q" ELSE "p"
               [] b.cause = "dictcomp-no-space" -> "a" [] b.cause = "dict-unpack-none" -> "b" [] b.cause = "empty-slice-tuple" -> "c"
               [] b.cause = "int-attribute" -> "d" [] b.cause = "fstring-conversion-dropped" -> "e" [] b.cause = "fstring-format-spec-dropped" -> "f"
               [] b.cause = "in_subscript-leak" -> "g" [] b.cause = "in_formatted_str-leak" -> "h" [] b.cause = "bare-genexp" -> "r"
               [] b.cause = "bare-yield" -> "s" [] b.cause = "lambda-in-fstring" -> "t" [] b.cause = "fstring-brace-start" -> "u"
               [] b.cause = "fstring-text-unescaped" -> "v" [] OTHER -> "-"
\* regression domain (cfg ExprBuild_regress): with a repair reverted in the model TLC must exhibit the old defect again
OldDefectGone == Done => ~\E b \in bad : FlagOf(b) \in Reverted
\* the same domain in one run (cfg ExprBuild_regressall, Reverted = all repairs = the transcription of the pinned code): every
\* old defect record is printed; the driver requires a witness for every repair (quick tier; thorough runs one job per repair)
ExhibitOld == (Done /\ Reverted # {}) =>
                 \A b \in bad : (FlagOf(b) \in Reverted) => PrintT(<<"NOTE", ToJson([flag |-> FlagOf(b), cause |-> b.cause, chain |-> chain])>>)
\* and a repair in effect leaves none of its defects (every domain)
RepairedStaysRepaired == Done => \A b \in bad : ~Has(FlagOf(b)) \/ (FlagOf(b) = "s" /\ b.parent = "Top")
\* every way the model breaks the property is one of the declared defect classes
OnlyKnownCauses == Done => \A b \in bad : b.cause \in KnownCauses
\* the text labels are exactly the differences between what is rendered and the reference, grouping aside
TextLabelled == Done => ((Strip(impl) # Strip(ref)) <=> (\E b \in bad : b.clause = "text" /\ b.cause # "fstring-brace-start"))
\* (iii) postponed evaluation: nothing is parsed
PostponedNeverParsed == (Done /\ ~P0) => ~\E b \in bad : b.clause = "strings"
\* (ii) an implicit tuple only as the direct slice of a subscript
RECURSIVE ImplicitOk(_, _)
ImplicitOk(e, direct) == /\ (e.c = "ExprTuple" /\ e.imp) => direct
                         /\ \A i \in 1..Len(e.kids) : ImplicitOk(e.kids[i], e.c = "ExprSubscript" /\ i = 2)
ImplicitOnlyInSlice == (Done /\ Clean) => ImplicitOk(built, FALSE)
\* every parameter of a stored lambda carries the default CPython binds to it (get_parameters = the right-aligned rule of Params.tla)
RECURSIVE LambdasAligned(_, _)
LambdasAligned(n, e) ==
  IF IsStrNode(n) THEN (e.c # "Parsed" \/ LambdasAligned(n.kids[1], e.kids[1]))
  ELSE IF e.c = "none" THEN TRUE
  ELSE /\ n.t = "Lambda" => e.ps = n.ps
       /\ \A i \in 1..(IF n.t = "FormattedValue" THEN Len(e.kids) ELSE Len(n.kids)) : LambdasAligned(n.kids[i], KidExpr(n, e, i))
LambdaDefaultsAligned == Done => LambdasAligned(tree, built)
\* every Name of the source is an ExprName element
NamesPresent == (Done /\ (FixFormatSpec \/ ~HasSpec(tree))) => NameTokens(impl) = srcnames

EmitCase ==
  (Emit /\ Done) =>
     PrintT(<<"CASE", ToJson([top |-> top, P0 |-> P0, chain |-> chain, tree |-> tree, impl |-> impl, ref |-> ref,
                              bad |-> bad, clean |-> Clean,
                              \* the two expanded trees differ from `tree` only when it holds strings (<<>>: same as tree)
                              itree |-> IF HasStr(tree) THEN ITree(tree, built) ELSE <<>>,
                              rtree |-> IF HasStr(tree) THEN RTree(tree, Ctx(top = "annotation", FALSE, FALSE)) ELSE <<>>])>>)
=============================================================================
