------------------------------- MODULE Loader -------------------------------
(***************************************************************************)
(* GriffeLoader (load / _post_load / expand_exports / expand_wildcards /   *)
(* resolve_aliases / resolve_module_aliases) over the alias machine of     *)
(* Alias.tla, the static visitor's treatment of import statements and      *)
(* __all__ (agents/visitor.py), and the two properties decided on it:      *)
(*                                                                         *)
(*  C05  for every ACYCLIC package program: after load + resolve_aliases   *)
(*       the member names of every module, the final target of every       *)
(*       member and Module.exports equal the namespace / defining objects  *)
(*       / __all__ that CPython (PyImport.tla) produces.                   *)
(*  C06  for ARBITRARY programs (cycles, self imports, dangling targets,   *)
(*       wildcard cycles, two packages loaded in any order, repeated       *)
(*       resolve_aliases()): no public call raises, nothing but the two    *)
(*       alias errors comes out of an accessor, _passed_through is clean,  *)
(*       chains are all-or-nothing, resolving twice is a fix-point, and    *)
(*       everything terminates.                                            *)
(*                                                                         *)
(* A behaviour: "build" (TLC chooses the program statement by statement    *)
(* from the family's menus) -> "py" (C05: the CPython reference runs) ->   *)
(* "ld" (public loader calls; each call runs the frame machine to          *)
(* quiescence, `Grain` micro steps per TLC transition) -> "probe" (every   *)
(* member alias is dereferenced: final_target, members) -> "done".         *)
(* Loader frames (one micro step = one statement group of loader.py):      *)
(*   LD load()+_post_load   EE expand_exports   EW expand_wildcards        *)
(*   RA resolve_aliases     RM resolve_module_aliases   PR probe           *)
(***************************************************************************)
EXTENDS PyImport, Alias, Json

CONSTANTS Prop,       \* "C05": fixed schedule load(p); resolve_aliases(), reference runs.  "C06": free schedules
          Families,   \* the families of programs explored by this run (Init picks one): which menus / modules (see Present, Menu)
          Scale,      \* "quick" | "thorough": selects the statement bound of each family (TotalOf)
          TotalCap,   \* > 0: overrides the statement bound (used by --replay)
          Domain,     \* "all": every program (the clauses are claimed for those without a recorded defect pattern);
                      \* "clean" / "defect": only the programs without / with a recorded defect pattern;
                      \* "old": only programs matching the pattern of a fixed defect (used with Old # {})
          Grain,      \* micro steps merged into one TLC transition (1: every intermediate state is a TLC state)
          Gen         \* TRUE: print one CASE record per finished behaviour

VARIABLES Family,     \* the family this behaviour belongs to (chosen by Init, never changes)
          S,          \* implementation state (Alias.tla record + loader fields)
          R,          \* reference state (PyImport.tla record)
          phase,      \* "build" | "py" | "ld" | "probe" | "done"
          bm,         \* build: index into ModOrder of the module being written
          ops,        \* public calls made so far: [op, arg, out, unres, iter]
          crashed,    \* exception class that escaped a public call ("" none)
          fixbad,     \* a resolve_aliases() directly after another one changed something
          lastres,    \* <<core, unresolved>> at the end of the previous resolve_aliases() (<<>>: none / a load happened since)
          probes,     \* outcomes of the probe phase: [a (path), id, out = <<final_target outcome, members outcome>>]
          flagsv,     \* the recorded defect patterns the finished program matches (Flags, evaluated once when the build ends)
          proj0       \* Gen: projection of the tree when the schedule ended (before the probes dereference anything)
vars == <<Family, prog, S, R, phase, bm, ops, crashed, fixbad, lastres, probes, flagsv, proj0>>

\* =========================================================================================================
\* Families: which modules exist, in which order they are written, the statement menu of each module
\* =========================================================================================================
Present ==
  CASE Family \in {"chain", "chain-q", "exports", "exports-q", "reexp", "reexp-q", "topstar", "splice", "attrall", "repeat"} -> {"p", "p.a", "p.b"}
    [] Family \in {"pkg", "pkg-q"} -> {"p", "p.s", "p.s.c"}
    [] Family \in {"graph", "graph-q", "fine"} -> {"p", "p.a", "p.b", "q"}
    [] Family \in {"wild", "wild-q", "retarget", "retarget-q", "selfcyc", "twostar", "apicyc"} -> {"p", "p.a", "p.b"}
    [] Family \in {"spl-down", "spl-up", "facade", "relay", "cycsub"} -> {"p", "p.a", "p.b", "p.s"}
    [] Family = "updots" -> {"p", "p.s", "p.s.c"}
    [] Family = "deepdots" -> {"p", "p.s", "p.s.c", "p.s.t"}
    [] Family = "aliasstar" -> {"p", "p.a", "p.b"}
    [] Family = "side" -> {"p", "q", "r"}
    [] OTHER -> {"p"}
ModOrder ==
  CASE Family \in {"chain", "chain-q", "exports", "exports-q", "wild", "wild-q", "retarget", "retarget-q", "reexp", "reexp-q", "splice", "attrall", "repeat"} -> <<"p.a", "p.b", "p">>
    [] Family \in {"pkg", "pkg-q"} -> <<"p.s.c", "p.s", "p">>
    [] Family = "topstar" -> <<"p.a", "p", "p.b">>
    [] Family = "spl-down" -> <<"p.s", "p.b", "p.a", "p">>    \* p.a splices p.b's __all__, which splices p.s's: dependents are expanded first
    [] Family = "spl-up" -> <<"p.a", "p.b", "p.s", "p">>      \* p.s splices p.b's, which splices p.a's: dependencies are expanded first
    [] Family = "side" -> <<"r", "q", "p">>
    [] Family \in {"facade", "relay", "cycsub"} -> <<"p.s", "p.a", "p.b", "p">>     \* p star-imports p.b, which re-exports from p.a, which imports the sub-module p.s
    [] Family = "updots" -> <<"p", "p.s", "p.s.c">>
    [] Family = "deepdots" -> <<"p", "p.s", "p.s.c", "p.s.t">>          \* the sub-package / its module import from the (already imported) ancestors
    [] Family = "aliasstar" -> <<"p.a", "p.b", "p">>
    [] Family \in {"selfcyc", "twostar", "apicyc"} -> <<"p.a", "p.b", "p">>           \* a sub-module star-imports its (already imported) parent package
    [] Family \in {"graph", "graph-q", "fine"} -> <<"p.a", "p.b", "p", "q">>
    [] OTHER -> <<"p">>
Quick == Family \in {"chain-q", "exports-q", "pkg-q", "graph-q", "reexp-q"}

Menu(m) ==
  CASE Family \in {"chain", "chain-q"} ->
        ( CASE m = "p.a" -> {Def("x"), Def("y"), Def("_z"), All(<<"x">>), All(<<"x", "_z">>), All(<<>>)}
                            \cup (IF Quick THEN {} ELSE {Aug(<<"y">>)})
            [] m = "p.b" -> {Def("x"), From("p.a", "x"), FromAs("p.a", "x", "y"), FromRel("p.a", "y"), From("p.a", "_z"),
                             Star("p.a"), All(<<"x">>), ImportAs("p.a", "y")}
                            \cup (IF Quick THEN {} ELSE {Def("y"), StarRel("p.a"), All(<<"y">>), Import("p.a"), From("p", "a")})
            [] OTHER ->     {From("p.b", "x"), From("p.b", "y"), Star("p.b"), Star("p.a"), Def("x"), All(<<"x">>)}
                            \cup (IF Quick THEN {} ELSE {FromRel("p.b", "y"), Def("y"), From("p", "a"), FromRel("p", "b"), Import("p.a"),
                                                         All(<<"x", "y">>), From("p.a", "x")}) )
    [] Family \in {"exports", "exports-q"} ->
        ( CASE m = "p.a" -> {Def("x"), Def("y"), All(<<"x">>), All(<<"y">>)}
            [] m = "p.b" -> {FromAs("p.a", "__all__", "a_all"), From("p.a", "__all__"), Star("p.a"), Def("y"),
                             AllInc(<<"y">>, "a_all"), AllInc(<<>>, "a_all"), AugInc("a_all"), All(<<"y">>)}
                            \cup (IF Quick THEN {} ELSE {Aug(<<"y">>), Def("x"), All(<<>>)})
            [] OTHER ->     {Star("p.b"), FromAs("p.b", "__all__", "b_all"), AllInc(<<>>, "b_all"), All(<<"x">>), Def("x")}
                            \cup (IF Quick THEN {} ELSE {All(<<"x", "y">>), AllInc(<<"x">>, "b_all"), From("p.b", "__all__"), Star("p.a")}) )
    [] Family \in {"reexp", "reexp-q"} ->      \* re-exports through a module that also star-imports, package with __all__
        ( CASE m = "p.a" -> {Def("x"), Def("y")}
            [] m = "p.b" -> {FromAs("p.a", "x", "y"), Star("p.a"), Def("y")}
                            \cup (IF Quick THEN {} ELSE {From("p.a", "x"), FromAs("p.a", "y", "x"), Def("x"), All(<<"y">>)})
            [] OTHER ->     {From("p.b", "y"), All(<<"y">>)}
                            \cup (IF Quick THEN {} ELSE {From("p.b", "x"), Star("p.b"), All(<<"x">>), All(<<"x", "y">>), FromAs("p.b", "y", "x")}) )
    [] Family = "splice" ->        \* a spliced __all__ below a package that has an __all__ (so that expand_exports reaches it), star-imported
        ( CASE m = "p.a" -> {Def("x"), All(<<"x">>)}
            [] m = "p.b" -> {FromAs("p.a", "__all__", "a_all"), Star("p.a"), AllInc(<<>>, "a_all"), Def("y")}
            [] OTHER -> {Star("p.b"), All(<<"x">>), All(<<>>)} )
    [] Family \in {"spl-down", "spl-up"} ->   \* __all__ spliced through a chain of depth 2 below a package that has an __all__
        LET leaf == IF Family = "spl-down" THEN "p.s" ELSE "p.a"
            api == IF Family = "spl-down" THEN "p.a" ELSE "p.s"
        IN ( CASE m = leaf -> {Def("x"), All(<<"x">>)}
               [] m = "p.b" -> {FromAs(leaf, "__all__", "a_all"), AllInc(<<>>, "a_all"), Def("y"), AllInc(<<"y">>, "a_all")}
               [] m = api -> {FromAs("p.b", "__all__", "b_all"), AllInc(<<>>, "b_all")}
               [] OTHER -> {All(<<>>)} )
    [] Family = "facade" ->        \* wildcard re-export chains of 2-3 links that end on an import of a sibling SUB-MODULE of the importing package
        ( CASE m = "p.s" -> {Def("x")}
            [] m = "p.a" -> {FromRel("p", "s"), From("p", "s"), Def("y")}
            [] m = "p.b" -> {Star("p.a"), StarRel("p.a"), From("p.a", "s")}
            [] OTHER -> {Star("p.b"), StarRel("p.b"), Star("p.a")} )
    [] Family = "updots" ->        \* relative imports of level >= 2 without a module part (`from .. import x`) in a sub-package __init__ / its module
        ( CASE m = "p" -> {Def("x"), Def("y")}
            [] m = "p.s" -> {FromRel("p", "x"), FromRel("p", "y"), From("p", "x"), FromRel("p.s", "c"), Def("x")}
            [] OTHER -> {FromRel("p", "x"), FromRel("p.s", "x"), FromRel("p.s", "y")} )
    [] Family = "deepdots" ->      \* relative imports with >= 2 leading dots in the __init__ of a sub-package nested three levels deep (p/s/t)
        ( CASE m = "p" -> {Def("x")}
            [] m = "p.s" -> {Def("y")}
            [] m = "p.s.c" -> {Def("x")}
            [] OTHER -> {FromRel("p.s.c", "x"), FromRel("p.s", "y"), FromRel("p.s", "c"), StarRel("p.s.c"), FromRel("p", "x"), From("p.s.c", "x")} )
    [] Family = "aliasstar" ->     \* wildcard sources named through a module alias (`import p.a as y` ... `from p.y import *`), inside cycles
        ( CASE m = "p.a" -> {Star("p.y"), Def("x"), Star("p.b")}
            [] m = "p.b" -> {Star("p.y"), Star("p.a")}
            [] OTHER -> {ImportAs("p.a", "y"), FromAs("p", "a", "y")} )
    [] Family = "side" ->          \* three top-level packages; only p is loaded, the others are side-loaded by resolve_aliases(external=True)
        ( CASE m = "r" -> {Def("y")}
            [] m = "q" -> {Def("x"), From("r", "y"), FromAs("r", "y", "x")} \cup (IF Scale = "quick" THEN {} ELSE {From("zz", "y"), Def("y")})
            [] OTHER -> {From("q", "x"), From("zz", "y"), From("q", "y")} \cup (IF Scale = "quick" THEN {} ELSE {Star("q"), FromAs("r", "y", "x")}) )
    [] Family = "apicyc" ->        \* alias chains (re)built through the public `alias.target = value` setter: resolved chains and cycles
        ( CASE m = "p.a" -> {From("p.b", "x")}
            [] m = "p.b" -> {From("p.a", "x")}
            [] OTHER -> {From("p.a", "x")} )
    [] Family = "cycsub" ->        \* a star-imported name that is a cyclic / dangling alias AND names a real sub-module of the importer
        ( CASE m = "p.s" -> {Def("x")}
            [] m = "p.a" -> {From("p.b", "s"), From("p", "s")}
            [] m = "p.b" -> {From("p.a", "s"), From("zz", "s")}
            [] OTHER -> {Star("p.a"), Star("p.b")} )
    [] Family = "twostar" ->       \* the same alias is star-imported from two modules (the second expansion finds it in `seen`)
        ( CASE m = "p.a" -> {From("zz", "x"), From("p.b", "x")}
            [] m = "p.b" -> {Star("p.a.x"), Def("x")}
            [] OTHER -> {Star("p.a.x"), Star("p.b")} )
    [] Family = "selfcyc" ->       \* a module imports itself under an alias and imports through it: chains that lead INTO a resolved cycle
        ( CASE m = "p.a" -> {ImportAs("p.a", "y"), From("p.a.y", "x"), Def("x")}
            [] m = "p.b" -> {From("p.a", "x"), ImportAs("p.a", "y"), From("p.b.y", "x")}
            [] OTHER -> {From("p.b", "x"), From("p.a", "x")} )
    [] Family = "relay" ->         \* explicit import chains of >= 2 links that end in a wildcard-provided name, below a package that declares __all__
        ( CASE m = "p.s" -> {Def("x")}                               \* (the chain is resolved early - Alias.kind in expand_exports - and fails)
            [] m = "p.a" -> {Star("p.s"), From("p.s", "x")}
            [] m = "p.b" -> {From("p.a", "x"), Star("p.a")}
            [] OTHER -> {From("p.b", "x"), All(<<"x">>)} )
    [] Family = "repeat" ->        \* the same import statement written twice with a colliding wildcard import in between
        ( CASE m = "p.a" -> {Def("x"), Def("y")}
            [] m = "p.b" -> {FromAs("p.a", "x", "y"), Star("p.a")}
            [] OTHER -> {} )
    [] Family = "attrall" ->       \* __all__ extended with another module's __all__ through an ATTRIBUTE access (`__all__ += a.__all__`)
        ( CASE m = "p.a" -> {Def("x"), All(<<"x">>)}
            [] m = "p.b" -> {ImportAs("p.a", "a"), All(<<>>), AugInc("@a"), AllInc(<<>>, "@a")} \cup (IF Scale = "quick" THEN {} ELSE {From("p", "a")})
            [] OTHER -> {All(<<>>)} )
    [] Family = "topstar" ->
        ( CASE m = "p.a" -> {Def("x"), Def("y"), All(<<"x">>)}
            [] m = "p" -> {FromAs("p.a", "__all__", "a_all"), Star("p.a"), AllInc(<<>>, "a_all"), All(<<"x">>), Def("y")}
            [] OTHER -> {Star("p"), From("p", "x")} )
    [] Family \in {"pkg", "pkg-q"} ->
        ( CASE m = "p.s.c" -> {Def("x"), Def("y"), All(<<"x">>)}
            [] m = "p.s" -> {FromRel("p.s", "c"), From("p.s", "c"), Import("p.s.c"), From("p.s.c", "x"), Star("p.s.c"),
                             Def("y"), All(<<"c">>), All(<<"x">>)}
                            \cup (IF Quick THEN {} ELSE {StarRel("p.s.c"), All(<<"c", "x">>), FromRel("p.s.c", "x"), ImportAs("p.s.c", "y")})
            [] OTHER ->     {Star("p.s"), From("p.s", "c"), From("p.s", "x"), Def("x"), All(<<"x">>)}
                            \cup (IF Quick THEN {} ELSE {From("p.s", "y"), FromRel("p", "s"), Import("p.s.c"), ImportAs("p.s.c", "y"), StarRel("p.s")}) )
    [] Family \in {"graph", "graph-q"} ->
        ( CASE m = "q" -> {Def("x"), From("p.a", "x")} \cup (IF Quick THEN {} ELSE {From("p", "x"), Star("p")})
            [] OTHER -> {Def("x"), From("p.a", "x"), From("p.b", "x"), From("q", "x"), From("zz", "x"), Star("p.a")}
                        \cup (IF Quick THEN {} ELSE {Star("q"), From("p", "x"), FromAs("p.a", "x", "y"), FromAs("p.b", "y", "x"), Star("p"), Star("p.b"),
                                                     Def("y"), From("p.b.x", "x"), From("p.a.x", "y"), Star("p.b.x"), FromAs("p", "y", "x"),
                                                     ImportAs("p.a", "x"), All(<<"x">>)}) )
    [] Family = "fine" ->
        ( CASE m = "q" -> {Def("x")}
            [] m = "p.a" -> {Def("x"), From("p.b", "x"), From("p", "x"), From("q", "x"), From("zz", "x"), ImportAs("p.b", "y")}
            [] m = "p.b" -> {Def("x"), From("p.a", "x"), FromAs("p.a", "x", "y"), Star("p.a"), From("p.a.y", "x"), From("p.b", "x")}
            [] OTHER -> {From("p.a", "x"), Star("p.b"), Star("p.a"), From("p.b", "y"), Def("x")} )
    [] Family = "wild" ->
        ( CASE m = "p.a" -> {Def("x"), From("zz", "x"), From("p.b", "x"), Star("p.b"), Star("p")}
            [] m = "p.b" -> {Def("x"), From("p.a", "x"), From("zz", "y"), Star("p.a"), Star("p"), Star("p.a.x"), Star("p.a.x.y"), From("p.a.x.y", "x")}
            [] OTHER -> {From("p.b", "x"), Star("p.b"), Star("p.a"), Def("x"), All(<<"x">>)} )
    [] Family = "wild-q" ->
        ( CASE m = "p.a" -> {From("zz", "x"), Star("p.b"), Star("p")}
            [] m = "p.b" -> {Def("x"), From("p.a", "x"), Star("p.a"), Star("p.a.x.y")}
            [] OTHER -> {Star("p.b"), Star("p.a"), Def("x")} )
    [] Family = "retarget-q" ->
        ( CASE m = "p.a" -> {From("zz", "x")}
            [] m = "p.b" -> {Def("x"), Star("p.a")}
            [] OTHER -> {From("p.b", "x"), All(<<"x">>)} )
    [] Family = "retarget" ->       \* a wildcard overrides a definition that already has importers (resolved early through __all__)
        ( CASE m = "p.a" -> {From("zz", "x"), Def("x"), From("p.b", "x")}
            [] m = "p.b" -> {Def("x"), Star("p.a"), From("p.a", "x")}
            [] OTHER -> {From("p.b", "x"), All(<<"x">>), Star("p.b")} )
    [] OTHER -> {}
MaxLen(m) ==
  CASE Family \in {"chain", "exports"} -> (IF m = "p.b" THEN 3 ELSE 2)
    [] Family \in {"chain-q", "exports-q"} -> (IF m = "p" THEN 1 ELSE 2)
    [] Family \in {"reexp", "reexp-q"} -> 2
    [] Family = "topstar" -> (IF m = "p" THEN 3 ELSE IF m = "p.b" THEN 1 ELSE 2)
    [] Family = "splice" -> (IF m = "p.b" THEN 3 ELSE 2)
    [] Family = "relay" -> (IF m = "p" THEN 2 ELSE 1)
    [] Family = "repeat" -> (IF m = "p.b" THEN 3 ELSE 2)
    [] Family = "attrall" -> (IF m = "p.b" THEN 3 ELSE IF m = "p" THEN 1 ELSE 2)
    [] Family \in {"spl-down", "spl-up"} -> (IF m = "p" THEN 1 ELSE 2)
    [] Family = "side" -> (IF m = "r" THEN 1 ELSE 2)
    [] Family = "selfcyc" -> 2
    [] Family \in {"twostar", "cycsub"} -> 1
    [] Family = "facade" -> (IF m = "p.a" THEN 2 ELSE 1)
    [] Family = "updots" -> (IF m = "p.s.c" THEN 1 ELSE 2)
    [] Family = "deepdots" -> (IF m = "p.s.t" THEN 2 ELSE 1)
    [] Family = "aliasstar" -> (IF m = "p" THEN 1 ELSE 2)
    [] Family = "apicyc" -> 1
    [] Family \in {"pkg", "pkg-q"} -> (IF m = "p.s.c" THEN 1 ELSE 2)
    [] Family \in {"graph", "graph-q", "fine", "wild", "wild-q", "retarget", "retarget-q"} -> (IF m = "q" THEN 1 ELSE 2)
    [] OTHER -> 2

\* bound on the number of statements of a program, per family and scale
MaxTotal ==
  IF TotalCap > 0 THEN TotalCap
  ELSE IF Family \in {"spl-down", "spl-up"} THEN 7
  ELSE IF Family = "side" THEN (IF Scale = "quick" THEN 4 ELSE 5)
  ELSE IF Family = "selfcyc" THEN (IF Scale = "quick" THEN 3 ELSE 4)
  ELSE IF Family = "twostar" THEN 3
  ELSE IF Family = "cycsub" THEN 4
  ELSE IF Family = "attrall" THEN 6
  ELSE IF Family \in {"relay", "repeat"} THEN 5
  ELSE IF Family = "facade" THEN 5
  ELSE IF Family = "updots" THEN 4
  ELSE IF Family = "deepdots" THEN 5
  ELSE IF Family = "aliasstar" THEN 4
  ELSE IF Family = "apicyc" THEN 3
  ELSE IF Scale = "quick"
       THEN ( CASE Family = "chain-q" -> 3 [] Family = "exports-q" -> 4 [] Family = "pkg-q" -> 3 [] Family = "reexp-q" -> 6
                [] Family = "graph-q" -> 2 [] Family = "wild-q" -> 3 [] Family = "retarget-q" -> 5 [] Family = "fine" -> 2
                [] OTHER -> 2 )
       ELSE ( CASE Family = "chain-q" -> 5 [] Family = "chain" -> 3 [] Family = "exports" -> 5 [] Family = "pkg" -> 4
                [] Family = "reexp" -> 6 [] Family = "topstar" -> 6 [] Family = "splice" -> 7
                [] Family = "graph-q" -> 3 [] Family = "graph" -> 2 [] Family = "wild" -> 3 [] Family = "retarget" -> 6 [] Family = "fine" -> 3
                [] OTHER -> 3 )
\* C06 schedules: "std": load the relevant packages in any order, optionally resolve in between, then resolve twice;
\*                "free": any sequence of load / resolve_aliases calls within MaxOps
\*                "ext": only p is loaded, then resolve_aliases(external=True) twice: the other packages are side-loaded
\*                "api": load(p), then up to two `alias.target = other` assignments between member aliases / definitions
Sched == IF Family = "fine" THEN "free" ELSE IF Family = "side" THEN "ext" ELSE IF Family = "apicyc" THEN "api" ELSE "std"
MaxOps == IF Prop = "C05" THEN 2
          ELSE IF Family = "fine" THEN (IF Scale = "quick" THEN 3 ELSE 4)
          ELSE IF Family \in {"graph", "graph-q"} THEN 5
          ELSE IF Family = "apicyc" THEN 4                            \* load(p) and up to three assignments
          ELSE 3                                                      \* ("ext": load(p), resolve, resolve)

TotalLen(pr) == LET RECURSIVE sum(_) sum(k) == IF k = 0 THEN 0 ELSE Len(pr[ModOrder[k]]) + sum(k - 1) IN sum(Len(ModOrder))

\* ---- static plausibility (C05 only): prune programs CPython cannot import ------------------------------
StmtsOf(pr, m) == {pr[m][k] : k \in 1..Len(pr[m])}
RECURSIVE StaticNames(_, _, _)
StaticNames(pr, m, fuel) ==     \* names some statement of m may bind
  {BoundName(s) : s \in {t \in StmtsOf(pr, m) : t.op # "star" /\ t.op # "aug"}}
  \cup (IF fuel = 0 THEN {} ELSE UNION {StaticNames(pr, s.m, fuel - 1) : s \in {t \in StmtsOf(pr, m) : t.op = "star" /\ t.m \in Present}})
IncOK(pr, m, inc) ==
  \/ inc = ""
  \/ inc \in AttrIncs /\ \E t \in StmtsOf(pr, m) : t.op \in {"from", "import"} /\ BoundName(t) = AttrBase(inc)
  \/ inc \notin AttrIncs /\ \E t \in StmtsOf(pr, m) : t.op = "from" /\ t.n = "__all__" /\ t.as = inc
Plausible(pr, m, s) ==
  CASE s.op = "from" -> s.m \in Present /\ (s.n \in StaticNames(pr, s.m, 3) \/ ModOfParts(PP(s.m) \o <<s.n>>) \in Present)
    [] s.op = "star" -> s.m \in Present
    [] s.op = "import" -> s.m \in Present
    [] s.op = "all" -> IncOK(pr, m, s.inc)
    [] s.op = "aug" -> (\E t \in StmtsOf(pr, m) : t.op = "all") /\ IncOK(pr, m, s.inc)
    [] OTHER -> TRUE
\* a finished module: every string in its __all__ statements is a name the module (statically) binds or a sub-module
ModuleOK(pr, m) ==
  \A s \in StmtsOf(pr, m) : s.op \in {"all", "aug"} =>
     \A k \in 1..Len(s.items) : s.items[k] \in StaticNames(pr, m, 3) \/ ModOfParts(PP(m) \o <<s.items[k]>>) \in Present

\* =========================================================================================================
\* Recorded defect patterns (static predicates on the program).  Domain "clean" = none of them.
\* =========================================================================================================
IsAncestor(anc, m) == anc # m /\ anc \in Mods /\ Len(PP(anc)) < Len(PP(m)) /\ SubSeq(PP(m), 1, Len(PP(anc))) = PP(anc)
AllStmts(pr) == UNION {{[m |-> m, k |-> k, s |-> pr[m][k]] : k \in 1..Len(pr[m])} : m \in Present}
HasAll(pr, m) == \E s \in StmtsOf(pr, m) : s.op = "all"
ImportsOf(pr, m) == {s \in StmtsOf(pr, m) : s.op \in {"from", "import"}}
\* C05-D1  is_wildcard_exposed exposes a sub-module only when `name in parent.imports`; CPython binds the
\*         sub-module in the package namespace whenever one of the package's own statements imports it
\*         (`from . import sub` - skipped by the visitor before it is recorded -, `from pkg.sub import x`,
\*         `from pkg.sub import *`, `import pkg.sub`): a star import of the package then misses it
RecordedImport(pkg, c) == \E s \in StmtsOf(prog, pkg) :
      s.op = "from" /\ s.m = pkg /\ s.n = Leaf(c) /\ s.as \in {"", Leaf(c)} /\ ~(s.rel /\ s.as = "")
D1 == \E e \in AllStmts(prog) : e.s.op = "star" /\ e.s.m \in Present /\ IsPkg(e.s.m)
        /\ \E c \in Present : ParentOf(c) = e.s.m /\ OwnImports(e.s.m, c) /\ ~RecordedImport(e.s.m, c)
\* C05-D2  expand_exports returns at `if module.exports is None: return` BEFORE the loop that recurses into sub-modules:
\*         `__all__ = [..., *other_all]` of a module stays unexpanded when one of its ancestor packages has no __all__
D2 == \E e \in AllStmts(prog) : e.s.op \in {"all", "aug"} /\ e.s.inc # ""
        /\ \E anc \in Present : IsAncestor(anc, e.m) /\ ~HasAll(prog, anc)
\* C05-D3  `from m import __all__` (not assigned): Module.exports is only set by assignments
D3 == \E e \in AllStmts(prog) : e.s.op = "from" /\ e.s.n = "__all__" /\ e.s.as = ""
\* C05-D4  aliases are resolved (Alias.kind in Module.modules, Alias constructors) before wildcards are
\*         expanded; an alias member that a later star import overrides stays the target of its importers
D4 == \E m \in Present : \E k1, k2 \in 1..Len(prog[m]) :
        /\ k1 < k2 /\ prog[m][k1].op \in {"from", "import"} /\ prog[m][k2].op = "star"
\* C05-D5  a module star-imports an ancestor package: expand_wildcards reaches the module while the package is still being
\*         scanned (the package is in `seen`, so it is not expanded first) and copies the package's members as they are at
\*         that moment - the package's own star imports are still pseudo members ("pkg/mod/*", which are exposed and
\*         copied as junk) and the names they will bring are missing
D5 == \E e \in AllStmts(prog) : e.s.op = "star" /\ IsAncestor(e.s.m, e.m)
\* C06-E1  expand_wildcards builds Alias(name, target=<member>) - born "resolved" - on top of a member that is
\*         itself an alias (which may be unresolved / unresolvable)
E1 == \E e \in AllStmts(prog) : e.s.op = "star" /\ e.s.m \in Present /\ ImportsOf(prog, e.s.m) # {}
\* C06-E2  a path that runs THROUGH a member (crossing an alias -> Alias.members builds born-"resolved" aliases;
\*         a failing crossing raises the alias error out of get_member, which the loader does not catch)
E2old == \E e \in AllStmts(prog) : e.s.op \in {"star", "from"} /\ e.s.m \notin Mods /\ e.s.m \notin {"zz", "p.zz"}
\* C06-E3  a star import of a module that star-imports back (the pseudo member "pkg/mod/*" is itself exposed)
E3old == \E e \in AllStmts(prog) : e.s.op = "star" /\ e.s.m \in Present /\ \E t \in StmtsOf(prog, e.s.m) : t.op = "star"
\* E2, E3, E4 describe FIXED defects: they only apply when the corresponding old behaviour is switched on (regression configs)
E2 == E2old /\ Old \cap {"starpath", "expwild", "bindfirst"} # {}
E3 == E3old /\ Old \cap {"expwild", "wildcycle"} # {}
\* C06-E4  resolve_aliases(external=True): a side-loaded package imports from a further package that has to be side-loaded
\*         too - the fix-point test `unresolved != prev_unresolved` does not see that a package was loaded during the iteration
E4 == "sideload" \in Old /\ Sched = "ext" /\ \E e \in AllStmts(prog) : TopOf(e.m) # "p" /\ e.s.op \in {"from", "star", "import"}
                          /\ PP(e.s.m)[1] \in (TopPkgs \cap Present) \ {"p", TopOf(e.m)}
Flags == (IF Prop = "C05"
          THEN (IF D1 THEN {"D1"} ELSE {}) \cup (IF D2 THEN {"D2"} ELSE {}) \cup (IF D3 THEN {"D3"} ELSE {})
               \cup (IF D4 THEN {"D4"} ELSE {}) \cup (IF D5 THEN {"D5"} ELSE {})
          ELSE (IF E1 THEN {"E1"} ELSE {}) \cup (IF E2 THEN {"E2"} ELSE {}) \cup (IF E3 THEN {"E3"} ELSE {}) \cup (IF E4 THEN {"E4"} ELSE {}))

\* =========================================================================================================
\* The visitor: members / imports / exports of one module  (agents/visitor.py)
\* =========================================================================================================
NoExports == [has |-> FALSE, items |-> <<>>]
StrItems(items) == [k \in 1..Len(items) |-> [s |-> items[k], e |-> FALSE]]
IncItems(inc) == IF inc = "" THEN <<>> ELSE <<[s |-> inc, e |-> TRUE]>>     \* ExprName(inc, parent=module)

VisitStmt(acc, m, s, l) ==
  CASE s.op = "def" -> [acc EXCEPT !.mem = Put(@, s.n, Id(m, s.n, l))]
    [] s.op = "from" ->
         \* visit_importfrom: `from . import n` in an __init__ is skipped (continue) before anything is recorded
         IF s.rel /\ IsPkg(m) /\ s.m = m /\ s.as = "" THEN acc
         ELSE LET tp == PP(s.m) \o <<s.n>>
                  nm == IF s.as # "" THEN s.as ELSE s.n
                  acc1 == [acc EXCEPT !.imports = @ \cup {nm}]
              IN \* "Do not create aliases pointing to themselves"
                 IF tp = PP(m) \o <<nm>> THEN acc1
                 ELSE [acc1 EXCEPT !.mem = Put(@, nm, Id(m, nm, l)), !.al = Upd(@, Id(m, nm, l), NewAlias(tp, ModId(m)))]
    [] s.op = "import" ->
         LET nm == IF s.as # "" THEN s.as ELSE PP(s.m)[1]
             tp == IF s.as # "" THEN PP(s.m) ELSE <<PP(s.m)[1]>>
         IN [acc EXCEPT !.imports = @ \cup {nm}, !.mem = Put(@, nm, Id(m, nm, l)), !.al = Upd(@, Id(m, nm, l), NewAlias(tp, ModId(m)))]
    [] s.op = "star" ->
         LET nm == StarName(s.m) IN
         [acc EXCEPT !.mem = Put(@, nm, Id(m, nm, l)), !.al = Upd(@, Id(m, nm, l), NewAlias(PP(s.m), ModId(m)))]
    [] s.op = "all" ->
         \* handle_attribute: the Attribute member, then parent.exports = [str | ExprName ...]
         [acc EXCEPT !.mem = Put(@, "__all__", Id(m, "__all__", l)),
                     !.exports = [has |-> TRUE, items |-> StrItems(s.items) \o IncItems(s.inc)]]
    [] s.op = "aug" ->
         \* visit_augassign: self.current.exports.extend(...)   (AttributeError suppressed when exports is None)
         IF acc.exports.has THEN [acc EXCEPT !.exports.items = @ \o StrItems(s.items) \o IncItems(s.inc)] ELSE acc
    [] OTHER -> acc

RECURSIVE VisitFrom(_, _, _)
VisitFrom(acc, m, l) == IF l > Len(prog[m]) THEN acc ELSE VisitFrom(VisitStmt(acc, m, prog[m][l], l), m, l + 1)
VisitModule(al0, m) == VisitFrom([mem |-> <<>>, al |-> al0, exports |-> NoExports, imports |-> {}], m, 1)

\* _load_package: visit the top module, set it in the collection, visit every sub-module and
\* parent_module.set_member(name, submodule)   (a same-named member is replaced, keeping its position)
RECURSIVE VisitMods(_, _, _)
VisitMods(S0, ms, k) ==
  IF k > Len(ms) THEN S0
  ELSE LET m == ms[k]
           v == VisitModule(S0.al, m)
           S1 == [S0 EXCEPT !.al = v.al, !.mem[m] = v.mem, !.exports[m] = v.exports, !.imports[m] = v.imports]
           S2 == IF ParentOf(m) = "" THEN [S1 EXCEPT !.coll = Append(@, m)]
                 ELSE [S1 EXCEPT !.mem[ParentOf(m)] = Put(@, Leaf(m), ModId(m))]
       IN VisitMods(S2, ms, k + 1)
PkgSeq(pkg) == <<pkg>> \o SelectSeq(SubmodSeq(pkg), LAMBDA m : m \in Present)
VisitPackage(S0, pkg) == VisitMods(S0, PkgSeq(pkg), 1)

\* =========================================================================================================
\* EE: GriffeLoader.expand_exports(module, seen)
\* =========================================================================================================
RECURSIVE ResolveName(_, _, _)
ResolveName(S0, m, name) ==     \* Object.resolve(name) in the scope of module m; NameResolutionError -> the bare name
  IF Has(S0.mem[m], name)
  THEN LET o == Get(S0.mem[m], name) IN IF IsAl(S0, o) THEN S0.al[o].tp ELSE PathOf(S0, o)
  ELSE IF ParentOf(m) = "" THEN <<name>> ELSE ResolveName(S0, ParentOf(m), name)

NextRealSub(S0, mm, i) ==        \* next member that is a real (non alias) module not yet seen
  LET c == {k \in i..Len(mm) : ~IsAl(S0, mm[k].o) /\ IsModId(mm[k].o) /\ PP(mm[k].o.m) \notin S0.seen}
  IN IF c = {} THEN 0 ELSE CHOOSE k \in c : \A j \in c : k <= j

EEMerge(S0, t) ==
  \*   try: expanded += [export for export in next_module.exports if export not in expanded]
  \*   except TypeError: logger.warning(...)                      (next_module.exports is None)
  LET nx == S0.exports[t.cur.m] IN
  IF ~nx.has THEN SetTop(S0, [t EXCEPT !.st = "items", !.i = @ + 1])
  ELSE SetTop(S0, [t EXCEPT !.st = "items", !.i = @ + 1, !.q = @ \o SelectSeq(nx.items, LAMBDA e : e \notin Range(t.q))])

StepEE(S0, t) ==
  LET m == t.a.m IN
  CASE t.st = "enter" ->
         \*   seen.add(module.path) ; if module.exports is None: return
         LET S1 == [S0 EXCEPT !.seen = @ \cup {PP(m)}] IN
         IF ~S0.exports[m].has THEN Return(S1, Nil)
         ELSE SetTop(S1, [t EXCEPT !.st = "items", !.i = 1, !.q = <<>>])
    [] t.st = "items" ->
         LET ex == S0.exports[m].items IN
         IF t.i > Len(ex) THEN SetTop([S0 EXCEPT !.exports[m].items = t.q], [t EXCEPT !.st = "kinds", !.i = 1])
         ELSE LET it == ex[t.i] IN
              IF ~it.e THEN SetTop(S0, [t EXCEPT !.q = Append(@, it), !.i = @ + 1])
              ELSE \*   module_path = export.canonical_path.rsplit(".", 1)[0]
                   \*   next_module = self.modules_collection.get_member(module_path)      (KeyError: continue)
                   \* (attribute form `b.__all__`: ExprName("__all__", parent=ExprName("b", parent=module)) -> canonical path of b + ".__all__")
                   LET cp == IF it.s \in AttrIncs THEN ResolveName(S0, m, AttrBase(it.s)) \o <<"__all__">> ELSE ResolveName(S0, m, it.s)
                       mp == IF Len(cp) > 1 THEN Front(cp) ELSE cp
                   IN CallF(S0, [t EXCEPT !.st = "item-lk"], FrLK(mp))
    [] t.st = "item-lk" ->
         IF S0.exc = "KEY" THEN SetTop(S0, [t EXCEPT !.st = "items", !.i = @ + 1])
         ELSE IF S0.exc # "" THEN Throw(S0, S0.exc)
         ELSE LET nm == S0.ret IN
              IF ~IsModId(nm) THEN SetTop([S0 EXCEPT !.unmod = TRUE], [t EXCEPT !.st = "items", !.i = @ + 1])
              \*   if next_module.path not in seen: self.expand_exports(next_module, seen)
              ELSE IF PP(nm.m) \notin S0.seen THEN CallF(S0, [t EXCEPT !.st = "item-rec", !.cur = nm], Fr("EE", nm))
              ELSE EEMerge(S0, [t EXCEPT !.cur = nm])
    [] t.st = "item-rec" -> IF S0.exc # "" THEN Throw(S0, S0.exc) ELSE EEMerge(S0, t)
    [] t.st = "kinds" ->
         \*   for submodule in module.modules.values():      Module.modules = {n: m for n, m in all_members if m.kind is MODULE}
         \* Alias.kind walks final_target (resolving the alias), swallowing the two alias errors
         IF S0.exc # "" THEN Throw(S0, S0.exc)
         ELSE LET mm == S0.mem[m]  k == NextAliasIdx(S0, mm, t.i) IN
              IF k = 0 THEN SetTop(S0, [t EXCEPT !.st = "subs", !.i = 1])
              ELSE CallF(S0, [t EXCEPT !.i = k + 1], FrSup("FT", mm[k].o))
    [] t.st = "subs" ->
         \*   if not submodule.is_alias and submodule.path not in seen: self.expand_exports(submodule, seen)
         IF S0.exc # "" THEN Throw(S0, S0.exc)
         ELSE LET mm == S0.mem[m]  k == NextRealSub(S0, mm, t.i) IN
              IF k = 0 THEN Return(S0, Nil)
              ELSE CallF(S0, [t EXCEPT !.i = k + 1], Fr("EE", mm[k].o))
    [] OTHER -> Throw(S0, "OTHER")

\* =========================================================================================================
\* EW: GriffeLoader.expand_wildcards(obj, external=False, seen)
\* =========================================================================================================
Exposed(S0, src, e) ==      \* ObjectAliasMixin.is_wildcard_exposed of member e = [n, o] of module src (runtime is always True)
  IF S0.exports[src].has THEN [s |-> e.n, e |-> FALSE] \in Range(S0.exports[src].items)
  ELSE IF Underscore(e.n) THEN FALSE
  ELSE IsAl(S0, e.o) \/ ~IsModId(e.o) \/ e.n \in S0.imports[src]

DelAll(mm, names) == SelectSeq(mm, LAMBDA e : e.n \notin Range(names))

EWItem(t) == t.q[t.i]
EWPresent(S0, t) == Has(S0.mem[t.a.m], NameOf(EWItem(t).o))
EWOld(S0, t) == IF EWPresent(S0, t) THEN Get(S0.mem[t.a.m], NameOf(EWItem(t).o)) ELSE Nil

\* obj.set_member(name, alias), last part:   self.members[name] = value ; value.parent = self
\* (Alias.parent setter -> _update_target_aliases, errors suppressed)
EWA4(S0, t) ==
  LET it == EWItem(t)
      S1 == [S0 EXCEPT !.mem[t.a.m] = Put(@, NameOf(it.o), t.x)]
  IN IF IsAl(S0, it.o) THEN CallF(S1, [t EXCEPT !.st = "ap-par"], FrSup("FT", it.o))
     ELSE SetTop(AddRef(S1, it.o, t.x), [t EXCEPT !.st = "apply", !.i = @ + 1])

\* obj.set_member(name, alias), first part: the replaced member is not an alias ->
\*   for alias in member.aliases.values(): with suppress(CyclicAliasError): alias.target = value
EWA3(S0, t) ==
  LET old == EWOld(S0, t) IN
  IF old # Nil /\ ~IsAl(S0, old)
  THEN SetTop([S0 EXCEPT !.unmod = @ \/ IsModId(old)],      \* replacing a module: merge_stubs is not modelled
              [t EXCEPT !.st = "ap-ret", !.j = 1, !.cur = old])
  ELSE EWA4(S0, t)

\* the "alias named after the module it targets" skip:
\*   with suppress(AliasResolutionError, CyclicAliasError):
\*       if prev_member.is_module:
\*           if prev_member.is_alias: prev_member = prev_member.final_target
\*           if alias.final_target is prev_member: continue
EWA2(S0, t) ==
  LET old == EWOld(S0, t) IN
  IF old = Nil THEN EWA4(S0, t)
  ELSE IF IsAl(S0, old) THEN CallF(S0, [t EXCEPT !.st = "ap-prevmod"], FrSup("FT", old))
  ELSE IF IsModId(old) THEN CallF(S0, [t EXCEPT !.st = "ap-cmp", !.cur = old], FrSup("FT", t.x))
  ELSE EWA3(S0, t)

EWApply(S0, t) ==
  LET m == t.a.m IN
  IF t.i > Len(t.q) THEN Return(S0, Nil)
  ELSE
    LET it == EWItem(t)
        nm == NameOf(it.o)
        present == EWPresent(S0, t)
        \*   self_alias = new_member.is_alias and new_member.target_path == f"{obj.path}.{new_member.name}"
        selfal == IsAl(S0, it.o) /\ S0.al[it.o].tp = PP(m) \o <<nm>>
        old == EWOld(S0, t)
        \*   old_lineno = old_member.alias_lineno if old_member.is_alias else old_member.lineno
        \*   overwrite = alias_lineno > (old_lineno or 0)
        overwrite == present /\ it.l > ObjLine(old)
    IN IF selfal \/ (present /\ ~overwrite) THEN SetTop(S0, [t EXCEPT !.i = @ + 1])
       ELSE \*   alias = Alias(new_member.name, new_member, lineno=alias_lineno, parent=obj)     born "resolved"
            LET N == Id(m, nm, it.l + 100)
                S1 == [S0 EXCEPT !.al = Upd(@, N, [tp |-> PathOf(S0, it.o), tgt |-> it.o, passed |-> FALSE, par |-> t.a])]
            IN IF IsAl(S0, it.o) THEN CallF(S1, [t EXCEPT !.st = "ap-ctor", !.x = N], FrSup("FT", it.o))
               ELSE EWA2(AddRef(S1, it.o, N), [t EXCEPT !.x = N])

StepEW(S0, t) ==
  LET a == t.a IN
  CASE t.st = "enter" ->
         \*   seen.add(obj.path) ; for member in obj.members.values():
         LET S1 == [S0 EXCEPT !.seen = @ \cup {PathOf(S0, a)}] IN
         IF IsAl(S0, a) THEN CallF(S1, [t EXCEPT !.st = "alias-mb"], Fr("MB", a))
         ELSE IF IsModId(a) THEN SetTop(S1, [t EXCEPT !.st = "scan", !.i = 1])
         ELSE Return(S1, Nil)
    [] t.st = "alias-mb" ->
         \* expanding inside an alias works on the transient dictionary of Alias.members: not modelled further
         IF S0.exc # "" THEN Throw(S0, S0.exc) ELSE Return([S0 EXCEPT !.unmod = TRUE], Nil)
    [] t.st = "scan" ->
         LET mm == S0.mem[a.m] IN
         IF t.i > Len(mm) THEN SetTop([S0 EXCEPT !.mem[a.m] = DelAll(@, t.r)], [t EXCEPT !.st = "apply", !.i = 1])
         ELSE LET e == mm[t.i] IN
           IF IsAl(S0, e.o) /\ e.n \in StarNames THEN
              \*   package = member.wildcard.split(".", 1)[0]
              \*   not_loaded = obj.package.path != package and package not in self.modules_collection
              \*   if not_loaded: if external is False ...: continue
              LET pkg == S0.al[e.o].tp[1]
                  notloaded == TopOf(a.m) # pkg /\ ~\E k \in 1..Len(S0.coll) : S0.coll[k] = pkg
              IN IF notloaded
                 THEN \*   if external is False ...: continue
                      \*   try: self.load(package, try_relative_path=False)  except (ImportError, LoadingError): continue
                      IF ~t.ext THEN SetTop(S0, [t EXCEPT !.i = @ + 1])
                      ELSE IF pkg \notin (TopPkgs \cap Present)
                           THEN SetTop([S0 EXCEPT !.hist = IF TraceOn /\ S0.log THEN Append(@, <<"LD", <<pkg>>>>) ELSE @], [t EXCEPT !.i = @ + 1])
                      ELSE CallF(S0, [t EXCEPT !.st = "w-load", !.set = S0.seen], Fr("LD", ModId(pkg)))
                 \*   try: target = self.modules_collection.get_member(member.target_path)  except KeyError: continue
                 ELSE CallF(S0, [t EXCEPT !.st = "w-lk"], FrLK(S0.al[e.o].tp))
           \*   elif not member.is_alias and member.is_module and member.path not in seen: self.expand_wildcards(member, ...)
           ELSE IF ~IsAl(S0, e.o) /\ IsModId(e.o) /\ PP(e.o.m) \notin S0.seen
                THEN CallF(S0, [t EXCEPT !.st = "sub"], [Fr("EW", e.o) EXCEPT !.ext = t.ext])
           ELSE SetTop(S0, [t EXCEPT !.i = @ + 1])
    [] t.st = "w-load" ->
         \* the nested load() ran its own expand_exports / expand_wildcards with fresh `seen` sets: ours is restored
         IF S0.exc # "" THEN Throw(S0, S0.exc)
         ELSE CallF([S0 EXCEPT !.seen = t.set], [t EXCEPT !.st = "w-lk"], FrLK(S0.al[S0.mem[a.m][t.i].o].tp))
    [] t.st = "w-lk" ->
         \*   except (KeyError, AliasResolutionError, CyclicAliasError): continue        ("starpath": only KeyError was caught)
         IF S0.exc = "KEY" \/ (S0.exc \in {"ARE", "CYC"} /\ "starpath" \notin Old) THEN SetTop(S0, [t EXCEPT !.st = "scan", !.i = @ + 1])
         ELSE IF S0.exc # "" THEN Throw(S0, S0.exc)
         ELSE LET tg == S0.ret IN
              \*   if target.path not in seen: try: self.expand_wildcards(target, ...)
              \*                               except (AliasResolutionError, CyclicAliasError): continue
              IF PathOf(S0, tg) \notin S0.seen THEN CallF(S0, [t EXCEPT !.st = "w-rec", !.cur = tg], [Fr("EW", tg) EXCEPT !.ext = t.ext])
              ELSE SetTop(S0, [t EXCEPT !.st = "collect", !.cur = tg])
    [] t.st = "w-rec" ->
         IF S0.exc \in {"ARE", "CYC"} THEN SetTop(S0, [t EXCEPT !.st = "scan", !.i = @ + 1])
         ELSE IF S0.exc # "" THEN Throw(S0, S0.exc)
         ELSE SetTop(S0, [t EXCEPT !.st = "collect"])
    [] t.st = "collect" ->
         \*   expanded.extend(self._expand_wildcard(member)) ; to_remove.append(member.name)
         \* _expand_wildcard: module = get_member(wildcard) ; [(m, alias_lineno, ...) for m in module.members.values() if m.is_wildcard_exposed]
         LET e == S0.mem[a.m][t.i]  tg == t.cur IN
         IF IsAl(S0, tg) THEN CallF(S0, [t EXCEPT !.st = "collect-mb"], Fr("MB", tg))
         ELSE LET src == MembersOf(S0, tg)
                  \* `if not (imported_member.is_alias and imported_member.wildcard) and imported_member.is_wildcard_exposed`
                  \* ("wildcycle": the pseudo members "pkg/mod/*" were copied like any exposed alias)
                  exp == SelectSeq(src, LAMBDA x : Exposed(S0, tg.m, x) /\ ("wildcycle" \in Old \/ ~(IsAl(S0, x.o) /\ x.n \in StarNames)))
              IN SetTop(S0, [t EXCEPT !.st = "scan", !.i = @ + 1, !.r = Append(@, e.n),
                                      !.q = @ \o [k \in 1..Len(exp) |-> [o |-> exp[k].o, l |-> ObjLine(e.o)]]])
    [] t.st = "collect-mb" ->
         \* the star target is an alias: its members are the transient aliases of Alias.members (not modelled further)
         \*   try: expanded.extend(self._expand_wildcard(member))
         \*   except (AliasResolutionError, CyclicAliasError): continue                   ("expwild": there was no try block)
         IF S0.exc \in {"ARE", "CYC"} /\ "expwild" \notin Old THEN SetTop(S0, [t EXCEPT !.st = "scan", !.i = @ + 1])
         ELSE IF S0.exc # "" THEN Throw(S0, S0.exc)
         ELSE SetTop([S0 EXCEPT !.unmod = TRUE], [t EXCEPT !.st = "scan", !.i = @ + 1, !.r = Append(@, S0.mem[a.m][t.i].n)])
    [] t.st = "sub" -> IF S0.exc # "" THEN Throw(S0, S0.exc) ELSE SetTop(S0, [t EXCEPT !.st = "scan", !.i = @ + 1])
    [] t.st = "apply" -> IF S0.exc # "" THEN Throw(S0, S0.exc) ELSE EWApply(S0, t)
    [] t.st = "ap-ctor" ->
         \* Alias.__init__ -> _update_target_aliases (errors suppressed): registers on the inner alias' final target
         IF S0.exc # "" THEN Throw(S0, S0.exc)
         ELSE EWA2(IF S0.ret # Nil THEN AddRef(S0, S0.ret, t.x) ELSE S0, t)
    [] t.st = "ap-prevmod" ->
         IF S0.exc # "" THEN Throw(S0, S0.exc)
         ELSE IF S0.ret # Nil /\ IsModId(S0.ret) THEN CallF(S0, [t EXCEPT !.st = "ap-cmp", !.cur = S0.ret], FrSup("FT", t.x))
         ELSE EWA3(S0, t)
    [] t.st = "ap-cmp" ->
         IF S0.exc # "" THEN Throw(S0, S0.exc)
         ELSE IF S0.ret = t.cur THEN SetTop(S0, [t EXCEPT !.st = "apply", !.i = @ + 1])
         ELSE EWA3(S0, t)
    [] t.st = "ap-ret" ->
         \* Alias.target setter:  if value is self or value.path == self.path: raise CyclicAliasError   (suppressed)
         \*                       self._target = value ; self.target_path = value.path
         \*                       if self.parent is not None: self._target.aliases[self.path] = self
         LET refs == RefsOf(S0, t.cur) IN
         IF t.j > Len(refs) THEN EWA4(S0, t)
         ELSE LET A == refs[t.j].a  N == t.x IN
              IF A = N \/ PathOf(S0, A) = PathOf(S0, N) THEN SetTop(S0, [t EXCEPT !.j = @ + 1])
              ELSE CallF([S0 EXCEPT !.al[A].tgt = N, !.al[A].tp = PathOf(S0, N)], [t EXCEPT !.st = "ap-ret-ft"], Fr("FT", N))
    [] t.st = "ap-ret-ft" ->
         \* only CyclicAliasError is suppressed around `alias.target = value`
         IF S0.exc = "CYC" THEN SetTop(S0, [t EXCEPT !.st = "ap-ret", !.j = @ + 1])
         ELSE IF S0.exc # "" THEN Throw(S0, S0.exc)
         ELSE SetTop(AddRef(S0, S0.ret, RefsOf(S0, t.cur)[t.j].a), [t EXCEPT !.st = "ap-ret", !.j = @ + 1])
    [] t.st = "ap-par" ->
         IF S0.exc # "" THEN Throw(S0, S0.exc)
         ELSE SetTop(IF S0.ret # Nil THEN AddRef(S0, S0.ret, t.x) ELSE S0, [t EXCEPT !.st = "apply", !.i = @ + 1])
    [] OTHER -> Throw(S0, "OTHER")

\* =========================================================================================================
\* RM: resolve_module_aliases(obj, implicit=True, external=False, seen)      RA: resolve_aliases(implicit=True, external=False)
\* =========================================================================================================
StepRM(S0, t) ==
  LET m == t.a.m  mm == S0.mem[m] IN
  CASE t.st = "enter" -> SetTop([S0 EXCEPT !.seen = @ \cup {PP(m)}], [t EXCEPT !.st = "loop", !.i = 1])
    [] t.st = "loop" ->
         IF t.i > Len(mm) THEN Return(S0, Nil)
         ELSE LET e == mm[t.i] IN
           IF IsAl(S0, e.o) THEN
              \*   if member.wildcard or member.resolved: continue
              IF e.n \in StarNames \/ S0.al[e.o].tgt # Nil THEN SetTop(S0, [t EXCEPT !.i = @ + 1])
              ELSE CallF(S0, [t EXCEPT !.st = "rt"], Fr("RT", e.o))
           \*   elif member.kind in {MODULE, CLASS} and member.path not in seen: recurse
           ELSE IF IsModId(e.o) /\ PP(e.o.m) \notin S0.seen THEN CallF(S0, [t EXCEPT !.st = "sub"], Fr("RM", e.o))
           ELSE SetTop(S0, [t EXCEPT !.i = @ + 1])
    [] t.st = "rt" ->
         \*   except AliasResolutionError: unresolved.add(member.path)     except CyclicAliasError: logger.debug
         \*   else: logger.debug("... resolved to %s", member.path, member.final_target.path) ; resolved.add(member.path)
         \*   target = error.alias.target_path ; package = target.split(".", 1)[0]
         \*   load_module = (external is True ...) and package not in load_failures and obj.package.path != package
         \*                 and package not in self.modules_collection
         \*   if load_module: try: self.load(package, try_relative_path=False)
         \*                   except (ImportError, LoadingError): load_failures.add(package)
         IF S0.exc = "ARE" THEN
            LET S1 == [S0 EXCEPT !.unres = @ \cup {PathOf(S0, mm[t.i].o)}]
                pkg == S0.al[S0.erra].tp[1]
                loadit == S0.ext /\ pkg \notin S0.lfail /\ TopOf(m) # pkg /\ ~\E k \in 1..Len(S0.coll) : S0.coll[k] = pkg
            IN IF ~loadit THEN SetTop(S1, [t EXCEPT !.st = "loop", !.i = @ + 1])
               ELSE IF pkg \notin (TopPkgs \cap Present)          \* load() is called and raises ModuleNotFoundError
                    THEN SetTop([S1 EXCEPT !.lfail = @ \cup {pkg}, !.hist = IF TraceOn /\ S0.log THEN Append(@, <<"LD", <<pkg>>>>) ELSE @],
                                [t EXCEPT !.st = "loop", !.i = @ + 1])
               ELSE CallF(S1, [t EXCEPT !.st = "side", !.set = S0.seen], Fr("LD", ModId(pkg)))
         ELSE IF S0.exc = "CYC" THEN SetTop(S0, [t EXCEPT !.st = "loop", !.i = @ + 1])
         ELSE IF S0.exc # "" THEN Throw(S0, S0.exc)
         ELSE CallF(S0, [t EXCEPT !.st = "logft"], Fr("FT", mm[t.i].o))
    [] t.st = "logft" -> IF S0.exc # "" THEN Throw(S0, S0.exc) ELSE SetTop(S0, [t EXCEPT !.st = "loop", !.i = @ + 1])
    [] t.st = "sub" -> IF S0.exc # "" THEN Throw(S0, S0.exc) ELSE SetTop(S0, [t EXCEPT !.st = "loop", !.i = @ + 1])
    [] t.st = "side" ->
         \* the side-loaded package is in the collection now (it is scanned from the next iteration on); `seen` is ours again
         IF S0.exc # "" THEN Throw(S0, S0.exc) ELSE SetTop([S0 EXCEPT !.seen = t.set], [t EXCEPT !.st = "loop", !.i = @ + 1])
    [] OTHER -> Throw(S0, "OTHER")

Marker == {<<"0">>}          \* unresolved = set("0")  # Init to enter loop.
StepRA(S0, t) ==
  CASE t.st = "enter" ->
         \*   for wildcards_module in list(collection.values()): ...          (t.j: length of the snapshot)
         SetTop([S0 EXCEPT !.unres = Marker, !.iter = 0, !.lfail = {}], [t EXCEPT !.st = "wild", !.i = 1, !.j = Len(S0.coll), !.set = {}])
    [] t.st = "wild" ->
         \*   self.expand_wildcards(wildcards_module, external=external)
         IF S0.exc # "" THEN Throw(S0, S0.exc)
         ELSE IF t.i > t.j THEN SetTop(S0, [t EXCEPT !.st = "while"])
         ELSE CallF([S0 EXCEPT !.seen = {}], [t EXCEPT !.i = @ + 1], [Fr("EW", ModId(S0.coll[t.i])) EXCEPT !.ext = S0.ext])
    [] t.st = "while" ->
         \*   while unresolved and unresolved != prev_unresolved and iteration < max_iterations:
         \*       prev_unresolved = unresolved - {"0"} ; unresolved = set() ; iteration += 1
         \*       for module_name in list(collection.keys()): ...              (t.j: length of the snapshot)
         \*   loaded = -1 ... while unresolved and (unresolved != prev_unresolved or len(collection) != loaded) ...: loaded = len(collection)
         \*   ("sideload": the loop only compared the sets)                      t.r = <<loaded>>, <<>> stands for -1
         IF S0.unres # {} /\ (S0.unres # t.set \/ ("sideload" \notin Old /\ t.r # <<Len(S0.coll)>>))
         THEN SetTop([S0 EXCEPT !.unres = {}, !.iter = @ + 1],
                     [t EXCEPT !.st = "mods", !.i = 1, !.j = Len(S0.coll), !.r = <<Len(S0.coll)>>, !.set = S0.unres \ Marker])
         ELSE Return(S0, Nil)
    [] t.st = "mods" ->
         IF S0.exc # "" THEN Throw(S0, S0.exc)
         ELSE IF t.i > t.j THEN SetTop(S0, [t EXCEPT !.st = "while"])
         ELSE CallF([S0 EXCEPT !.seen = {}], [t EXCEPT !.i = @ + 1], Fr("RM", ModId(S0.coll[t.i])))
    [] OTHER -> Throw(S0, "OTHER")

\* LD: GriffeLoader.load(pkg) = _load_package ; _post_load: expand_exports(top) ; expand_wildcards(top, external=False)
StepLD(S0, t) ==
  CASE t.st = "enter" -> CallF([VisitPackage(S0, t.a.m) EXCEPT !.seen = {}], [t EXCEPT !.st = "ee"], Fr("EE", t.a))
    [] t.st = "ee" -> IF S0.exc # "" THEN Throw(S0, S0.exc)
                      ELSE CallF([S0 EXCEPT !.seen = {}], [t EXCEPT !.st = "ew"], Fr("EW", t.a))
    [] t.st = "ew" -> IF S0.exc # "" THEN Throw(S0, S0.exc) ELSE Return(S0, Nil)
    [] OTHER -> Throw(S0, "OTHER")

\* PR: the probe - consumer accessors on one alias: final_target, then members
StepPR(S0, t) ==
  CASE t.st = "enter" -> CallF(S0, [t EXCEPT !.st = "ft"], Fr("FT", t.a))
    [] t.st = "ft" -> CallF([S0 EXCEPT !.pout = <<IF S0.exc = "" THEN "ok" ELSE S0.exc>>], [t EXCEPT !.st = "mb"], Fr("MB", t.a))
    [] t.st = "mb" -> Return([S0 EXCEPT !.pout = Append(@, IF S0.exc = "" THEN "ok" ELSE S0.exc)], Nil)
    [] OTHER -> Throw(S0, "OTHER")

\* ST: Alias.target setter
\*   if value is self or value.path == self.path: raise CyclicAliasError([self.target_path])
\*   self._target = value ; self.target_path = value.path ; if self.parent is not None: self._target.aliases[self.path] = self
StepST(S0, t) ==
  LET a == t.a  v == t.x IN
  CASE t.st = "enter" ->
         IF v = a \/ PathOf(S0, v) = PathOf(S0, a) THEN Throw(S0, "CYC")
         ELSE LET S1 == [S0 EXCEPT !.al[a].tgt = v, !.al[a].tp = PathOf(S0, v)] IN
              IF IsAl(S0, v) THEN CallF(S1, [t EXCEPT !.st = "reg"], Fr("FT", v)) ELSE Return(AddRef(S1, v, a), Nil)
    [] t.st = "reg" -> IF S0.exc # "" THEN Throw(S0, S0.exc) ELSE Return(AddRef(S0, S0.ret, a), Nil)
    [] OTHER -> Throw(S0, "OTHER")

MicroStep(S0) ==
  LET t == TopF(S0) IN
  CASE t.f \in {"RT", "FT", "MB", "LK"} -> AliasStep(S0, t)
    [] t.f = "EE" -> StepEE(S0, t)
    [] t.f = "EW" -> StepEW(S0, t)
    [] t.f = "RM" -> StepRM(S0, t)
    [] t.f = "RA" -> StepRA(S0, t)
    [] t.f = "LD" -> StepLD(S0, t)
    [] t.f = "PR" -> StepPR(S0, t)
    [] t.f = "ST" -> StepST(S0, t)
    [] OTHER -> Throw(S0, "OTHER")

RECURSIVE Iter(_, _)
Iter(S0, k) == IF k = 0 \/ S0.stack = <<>> THEN S0 ELSE Iter(MicroStep(S0), k - 1)

\* =========================================================================================================
\* Behaviours
\* =========================================================================================================
InitS ==
  [stack |-> <<>>, exc |-> "", ret |-> Nil, coll |-> <<>>,
   mem |-> [m \in Present |-> <<>>], al |-> [x \in {} |-> NewAlias(<<>>, Nil)], brefs |-> [x \in {} |-> <<>>],
   exports |-> [m \in Present |-> NoExports], imports |-> [m \in Present |-> {}],
   seen |-> {}, nt |-> 0, unmod |-> FALSE, hist |-> <<>>, log |-> TRUE, erra |-> Nil, ext |-> FALSE, lfail |-> {}, unres |-> {}, iter |-> 0, pout |-> <<>>]

Init ==
  /\ Family \in Families
  /\ prog = [m \in Mods |-> <<>>]
  /\ S = InitS /\ R = PyInitState(Present)
  /\ phase = "build" /\ bm = 1 /\ ops = <<>> /\ crashed = "" /\ fixbad = FALSE /\ lastres = <<>> /\ probes = <<>> /\ proj0 = <<>> /\ flagsv = {}

AddStmt ==
  /\ UNCHANGED Family
  /\ phase = "build" /\ bm <= Len(ModOrder)
  /\ LET m == ModOrder[bm] IN
     /\ Len(prog[m]) < MaxLen(m) /\ TotalLen(prog) < MaxTotal
     /\ \E s \in Menu(m) :
          /\ (Prop = "C05" => Plausible(prog, m, s))
          /\ prog' = [prog EXCEPT ![m] = Append(@, s)]
  /\ UNCHANGED <<S, R, phase, bm, ops, crashed, fixbad, lastres, probes, flagsv, proj0>>

NextMod ==
  /\ UNCHANGED Family
  /\ phase = "build" /\ bm <= Len(ModOrder)
  /\ bm' = bm + 1
  /\ (Prop = "C05" => ModuleOK(prog, ModOrder[bm]))
  /\ IF bm = Len(ModOrder)
     THEN /\ TotalLen(prog) > 0
          /\ (Domain = "clean" => Flags = {})
          /\ (Domain = "defect" => Flags # {})
          \* regression configs (Old # {}): only the programs that match a pattern of a FIXED defect and no pattern of an open one
          /\ (Domain = "old" => (Flags \cap {"E2", "E3", "E4"} # {} /\ Flags \cap {"E1"} = {}))
          /\ phase' = IF Prop = "C05" THEN "py" ELSE "ld"
          /\ flagsv' = Flags
     ELSE phase' = phase /\ UNCHANGED flagsv
  /\ UNCHANGED <<prog, S, R, ops, crashed, fixbad, lastres, probes, proj0>>

\* the CPython reference runs to completion; a program CPython cannot import is outside the domain
RunRef ==
  /\ UNCHANGED Family
  /\ phase = "py"
  /\ LET R1 == PyRun(R, 200) IN
     /\ R' = R1
     /\ phase' = IF R1.err # "" \/ ~PyDone(R1) THEN "done" ELSE "ld"
  /\ UNCHANGED <<prog, S, bm, ops, crashed, fixbad, lastres, probes, flagsv, proj0>>

Loaded(S0, m) == \E k \in 1..Len(S0.coll) : S0.coll[k] = TopOf(m)
LoadedMods(S0) == SelectSeq(WalkOrder, LAMBDA m : m \in Present /\ Loaded(S0, m))
\* the aliases a consumer reaches by iterating members of the loaded modules, in order
RECURSIVE AliasesOfMods(_, _, _)
AliasesOfMods(S0, ms, k) ==
  IF k > Len(ms) THEN <<>>
  ELSE LET mm == S0.mem[ms[k]]
           idx == SelectSeq([j \in 1..Len(mm) |-> mm[j]], LAMBDA e : IsAl(S0, e.o))
       IN [j \in 1..Len(idx) |-> idx[j].o] \o AliasesOfMods(S0, ms, k + 1)
MemberAliases(S0) == AliasesOfMods(S0, LoadedMods(S0), 1)

\* what a second resolve_aliases() must leave untouched: members, exports, every member alias' link
NormTgt(o) == IF IsTrans(o) THEN [m |-> "~", n |-> o.n, l |-> 0] ELSE o
Core(S0) == [mem |-> S0.mem, exports |-> S0.exports,
             links |-> LET ma == MemberAliases(S0) IN [k \in 1..Len(ma) |-> <<ma[k], NormTgt(S0.al[ma[k]].tgt), S0.al[ma[k]].tp>>]]

KindOf(S0, o) == IF IsAl(S0, o) THEN "alias" ELSE IF IsModId(o) THEN "mod" ELSE IF o.n = "__all__" THEN "attr" ELSE "def"
ProjMod(S0, m) ==
  [m |-> m,
   has_all |-> S0.exports[m].has,
   exports |-> S0.exports[m].items,
   members |-> [k \in 1..Len(S0.mem[m]) |->
      LET e == S0.mem[m][k] IN
      [n |-> e.n, o |-> e.o, k |-> KindOf(S0, e.o),
       tp |-> IF IsAl(S0, e.o) THEN S0.al[e.o].tp ELSE <<>>,
       tgt |-> IF IsAl(S0, e.o) THEN NormTgt(S0.al[e.o].tgt) ELSE Nil,
       fin |-> FinalOf(S0, e.o)]]]
ProjS(S0) == LET ms == LoadedMods(S0) IN [k \in 1..Len(ms) |-> ProjMod(S0, ms[k])]

NumOps(name) == Cardinality({k \in 1..Len(ops) : ops[k].op = name})
LastOp == IF ops = <<>> THEN "" ELSE ops[Len(ops)].op

QRelevant == prog["q"] # <<>> \/ \E e \in AllStmts(prog) : e.s.m = "q"
Wanted == IF Prop = "C05" \/ Sched = "ext" THEN {"p"} ELSE (TopPkgs \cap Present) \ (IF QRelevant THEN {} ELSE {"q"})
AllWantedLoaded == \A pkg \in Wanted : Loaded(S, pkg)
LastTwoResolve == Len(ops) >= 2 /\ ops[Len(ops)].op = "resolve" /\ ops[Len(ops) - 1].op = "resolve"

StartOp ==       \* a public call begins (the previous one, if any, has returned)
  /\ UNCHANGED Family
  /\ phase = "ld" /\ S.stack = <<>> /\ crashed = "" /\ Len(ops) < MaxOps
  /\ \/ \E pkg \in Wanted :
          /\ ~Loaded(S, pkg)
          /\ S' = [S EXCEPT !.stack = <<Fr("LD", ModId(pkg))>>, !.hist = IF TraceOn THEN Append(@, <<"LD", <<pkg>>>>) ELSE @]
          /\ ops' = Append(ops, [op |-> "load", arg |-> pkg, out |-> "", unres |-> {}, iter |-> 0, a |-> Nil, v |-> Nil])
          /\ lastres' = <<>>
       \/ /\ S.coll # <<>> /\ ~LastTwoResolve
          /\ (Prop = "C05" => NumOps("resolve") = 0)
          /\ (Sched \in {"std", "ext"} /\ LastOp = "resolve" => AllWantedLoaded) /\ Sched # "api"
          /\ S' = [S EXCEPT !.stack = <<Fr("RA", Nil)>>, !.ext = (Sched = "ext"), !.hist = IF TraceOn THEN Append(@, <<"RA", <<>>>>) ELSE @]
          /\ ops' = Append(ops, [op |-> "resolve", arg |-> IF Sched = "ext" THEN "ext" ELSE "", out |-> "", unres |-> {}, iter |-> 0, a |-> Nil, v |-> Nil])
          /\ UNCHANGED lastres
       \/ \* alias.target = value  (public setter; `value` is a member alias or the object a member alias names)
          /\ Sched = "api" /\ S.coll # <<>>
          /\ \E ka, kv \in 1..Len(MemberAliases(S)) :
               LET a == MemberAliases(S)[ka]  v == MemberAliases(S)[kv] IN
               /\ a # v
               /\ S' = [S EXCEPT !.stack = <<[Fr("ST", a) EXCEPT !.x = v]>>]
               /\ ops' = Append(ops, [op |-> "settarget", arg |-> "", out |-> "", unres |-> {}, iter |-> 0, a |-> a, v |-> v])
          /\ lastres' = <<>>
  /\ UNCHANGED <<prog, R, phase, bm, crashed, fixbad, probes, flagsv, proj0>>

Run ==           \* up to Grain micro steps of the running call; on return the call's outcome is recorded
  /\ UNCHANGED Family
  /\ phase \in {"ld", "probe"} /\ S.stack # <<>>
  /\ LET S1 == Iter(S, Grain) IN
     /\ S' = IF S1.stack = <<>> THEN [S1 EXCEPT !.exc = "", !.ret = Nil] ELSE S1
     /\ IF S1.stack # <<>> THEN UNCHANGED <<ops, crashed, fixbad, lastres, probes>>
        ELSE IF phase = "probe"
        THEN /\ probes' = [probes EXCEPT ![Len(probes)].out = S1.pout]
             /\ crashed' = IF S1.exc # "" THEN S1.exc ELSE crashed
             /\ UNCHANGED <<ops, fixbad, lastres>>
        ELSE /\ ops' = [ops EXCEPT ![Len(ops)].out = IF S1.exc = "" THEN "ok" ELSE S1.exc,
                                   ![Len(ops)].unres = IF LastOp = "resolve" THEN S1.unres ELSE {},
                                   ![Len(ops)].iter = IF LastOp = "resolve" THEN S1.iter ELSE 0]
             \* the target setter documents CyclicAliasError (and its registration may report an unresolvable chain): not a crash
             /\ crashed' = IF LastOp = "settarget" /\ S1.exc \in {"ARE", "CYC"} THEN "" ELSE S1.exc
             /\ IF LastOp = "resolve" /\ S1.exc = ""
                THEN /\ lastres' = <<Core(S1), S1.unres>>
                     /\ fixbad' = (fixbad \/ (lastres # <<>> /\ lastres # <<Core(S1), S1.unres>>))
                ELSE UNCHANGED <<lastres, fixbad>>
             /\ UNCHANGED probes
  /\ UNCHANGED <<prog, R, phase, bm, flagsv, proj0>>

Finish ==        \* the schedule ends; every member alias is probed
  /\ UNCHANGED Family
  /\ phase = "ld" /\ S.stack = <<>> /\ S.coll # <<>>
  /\ (Prop = "C05" /\ crashed = "" => NumOps("resolve") = 1)
  /\ (Prop = "C06" /\ Sched \in {"std", "ext"} /\ crashed = "" => AllWantedLoaded /\ LastTwoResolve)
  /\ (Sched = "api" => LastOp = "settarget")
  /\ phase' = IF crashed # "" THEN "done" ELSE "probe"
  /\ proj0' = IF Gen THEN ProjS(S) ELSE <<>>
  /\ S' = [S EXCEPT !.log = FALSE]
  /\ UNCHANGED <<prog, R, bm, ops, crashed, fixbad, lastres, probes, flagsv>>

Probe ==
  /\ UNCHANGED Family
  /\ phase = "probe" /\ S.stack = <<>>
  /\ LET ma == MemberAliases(S) IN
     IF Len(probes) < Len(ma) /\ crashed = ""
     THEN LET a == ma[Len(probes) + 1] IN
          /\ probes' = Append(probes, [a |-> PathOf(S, a), id |-> a, out |-> <<>>])
          /\ S' = [S EXCEPT !.stack = <<Fr("PR", a)>>, !.pout = <<>>]
          /\ UNCHANGED phase
     ELSE /\ phase' = "done" /\ UNCHANGED <<S, probes>>
  /\ UNCHANGED <<prog, R, bm, ops, crashed, fixbad, lastres, flagsv, proj0>>

Next == AddStmt \/ NextMod \/ RunRef \/ StartOp \/ Run \/ Finish \/ Probe
Spec == Init /\ [][Next]_vars
FairSpec == Spec /\ WF_vars(Run)

\* hist / pout are observations; the exhaustive search identifies states by everything else
View == <<Family, prog, [S EXCEPT !.hist = <<>>], R, phase, bm, ops, crashed, fixbad, lastres, probes, flagsv, proj0>>

\* =========================================================================================================
\* C05: the comparison with the reference  (evaluated when phase = "done")
\* =========================================================================================================
\* Domain "all": the clauses are claimed for the programs without a recorded defect pattern (and every program is emitted);
\* Domain "defect" / "clean": the programs are already restricted, the clauses are claimed for all of them
InClaim == Domain # "all" \/ flagsv = {}
Valid05 == phase = "done" /\ crashed = "" /\ R.err = "" /\ PyDone(R) /\ ~R.outdom /\ Len(ops) = 2 /\ InClaim
MemNames(m) == {S.mem[m][k].n : k \in 1..Len(S.mem[m])}
\* the names visible in each module
NamesEq == Valid05 => \A m \in Present : MemNames(m) = DOMAIN R.ns[m]
\* the defining object each name ultimately refers to
TargetsEq == Valid05 => \A m \in Present : \A n \in MemNames(m) \cap DOMAIN R.ns[m] : FinalOf(S, Get(S.mem[m], n)) = R.ns[m][n]
\* Module.exports = __all__
ExportsOf(m) == {S.exports[m].items[k] : k \in 1..Len(S.exports[m].items)}
ExportsEq == Valid05 => \A m \in Present :
   IF "__all__" \in DOMAIN R.ns[m] /\ R.ns[m]["__all__"] \in DOMAIN R.lists
   THEN S.exports[m].has /\ ExportsOf(m) = {[s |-> x, e |-> FALSE] : x \in Range(R.lists[R.ns[m]["__all__"]])}
   ELSE "__all__" \notin DOMAIN R.ns[m] => ~S.exports[m].has
\* load + resolve_aliases do not raise on an importable acyclic package
NoCrash05 == (phase = "done" /\ R.err = "" /\ PyDone(R) /\ InClaim) => crashed = ""
\* model-predicted divergences, printed with every case (the driver attributes real divergences to them)
Valid05All == phase = "done" /\ crashed = "" /\ R.err = "" /\ PyDone(R) /\ ~R.outdom /\ Len(ops) = 2
Diff05 ==
  IF ~Valid05All THEN {}
  ELSE UNION {
     {[clause |-> "names", m |-> m, n |-> n] : n \in (MemNames(m) \ DOMAIN R.ns[m]) \cup (DOMAIN R.ns[m] \ MemNames(m))}
     \cup {[clause |-> "target", m |-> m, n |-> n] : n \in {x \in MemNames(m) \cap DOMAIN R.ns[m] : FinalOf(S, Get(S.mem[m], x)) # R.ns[m][x]}}
     \cup (IF (IF "__all__" \in DOMAIN R.ns[m] /\ R.ns[m]["__all__"] \in DOMAIN R.lists
               THEN S.exports[m].has /\ ExportsOf(m) = {[s |-> x, e |-> FALSE] : x \in Range(R.lists[R.ns[m]["__all__"]])}
               ELSE "__all__" \notin DOMAIN R.ns[m] => ~S.exports[m].has)
           THEN {} ELSE {[clause |-> "exports", m |-> m, n |-> "__all__"]})
     : m \in Present}

\* =========================================================================================================
\* C06
\* =========================================================================================================
Quiescent == phase \in {"ld", "probe", "done"} /\ S.stack = <<>>
\* (i) nothing but the two alias errors ever comes out (of a public call or of an accessor)
NoOther == S.exc \notin {"OTHER"} /\ crashed \notin {"OTHER", "KEY"}
           /\ \A k \in 1..Len(probes) : \A j \in 1..Len(probes[k].out) : probes[k].out[j] \in {"ok", "ARE", "CYC"}
\* loading and resolving never raise
NoRaise == InClaim => crashed = ""
\* (ii) _passed_through is set exactly while the alias' resolve_target frame is running
PassedClean == PassedIffOnStack(S) /\ NoReentrantRT(S)
\* (iii) all-or-nothing: between public calls no member alias is bound on top of an unbound / looping chain
AllOrNothingRaw == Quiescent => \A k \in 1..Len(MemberAliases(S)) :
                   LET a == MemberAliases(S)[k] IN S.al[a].tgt # Nil => ~HitsUnbound(S, a)
AllOrNothing == (InClaim /\ Sched # "api") => AllOrNothingRaw      \* (the setter binds onto whatever it is given)
\* (not a clause of the property, an exploration aid): is a chain of BOUND links that loops reachable at all?  With the current
\* code TLC finds it only through born-resolved aliases (expand_wildcards / set_member re-targeting, pattern E1)
RECURSIVE LoopsF(_, _, _)
LoopsF(S0, o, fuel) == IF o = Nil \/ ~IsAl(S0, o) THEN FALSE ELSE IF fuel = 0 THEN TRUE ELSE LoopsF(S0, S0.al[o].tgt, fuel - 1)
NoBoundCycle == \A k \in 1..Len(MemberAliases(S)) : ~LoopsF(S, MemberAliases(S)[k], 12)
\* (iv) after resolve_aliases: `resolved` implies final_target works; an unresolved alias yields one of the two errors
ProbeConsistent == InClaim => \A k \in 1..Len(probes) : Len(probes[k].out) = 2 =>
                     /\ probes[k].out[1] \in {"ok", "ARE", "CYC"}
                     /\ (probes[k].out[1] = "ok" <=> probes[k].out[2] = "ok")
\* (v) fix-point: resolve_aliases() directly after resolve_aliases() changes nothing and returns the same set
FixPoint == InClaim => ~fixbad
\* termination: bounded stack (the recursion is cut by _passed_through / seen) - liveness is checked with FairSpec
StackBound == Len(S.stack) <= 40
\* every public call (load, resolve_aliases) and every accessor call returns or raises: whenever frames are on the stack,
\* the stack eventually empties (weak fairness of the - deterministic - machine step is the only assumption)
Terminates == (S.stack # <<>>) ~> (S.stack = <<>>)

\* =========================================================================================================
\* Emission of one record per finished behaviour (replayed on the real code by gverif/props/c05.py, c06.py)
\* =========================================================================================================
ProjR ==
  LET ms == SelectSeq(WalkOrder, LAMBDA m : m \in Present) IN
  [ns |-> [k \in 1..Len(ms) |-> [m |-> ms[k], names |-> {[n |-> n, v |-> R.ns[ms[k]][n]] : n \in DOMAIN R.ns[ms[k]]}]],
   lists |-> {[id |-> x, items |-> R.lists[x]] : x \in DOMAIN R.lists},
   err |-> R.err, outdom |-> R.outdom]
ProgJson == LET ms == SelectSeq(WalkOrder, LAMBDA m : m \in Present) IN [k \in 1..Len(ms) |-> [m |-> ms[k], stmts |-> prog[ms[k]]]]

Emit ==
  (Gen /\ phase = "done") =>
     PrintT(<<"CASE", ToJson([prop |-> Prop, family |-> Family, prog |-> ProgJson, flags |-> flagsv, ops |-> ops, crashed |-> crashed,
                              unmod |-> S.unmod, fixbad |-> fixbad, impl |-> IF proj0 = <<>> THEN ProjS(S) ELSE proj0, probes |-> probes,
                              ref |-> IF Prop = "C05" THEN ProjR ELSE [ns |-> <<>>, lists |-> {}, err |-> "", outdom |-> FALSE],
                              diff |-> IF Prop = "C05" THEN Diff05 ELSE {},
                              aon |-> AllOrNothingRaw, hist |-> S.hist])>>)
=============================================================================
