----------------------------- MODULE DynImport -----------------------------
(***************************************************************************)
(* X05 - griffe.dynamic_import(import_path, import_paths) / griffe.sys_path *)
(* (src/_griffe/importer.py), the helper the inspector and load_extensions *)
(* use to obtain runtime objects.                                          *)
(*                                                                         *)
(* Shape P.  A *case* (chosen in Init) is a dotted path of n components,   *)
(* a package-on-disk situation for it (what each prefix is on disk, what   *)
(* its body does, which attributes the containers define), a sys.path /    *)
(* import_paths set-up over three directories (R = the package tree, X = a *)
(* decoy holding only a plain module named like the first component, E =   *)
(* an empty directory) and an optional mutation of sys.path performed by   *)
(* the imported code.  The run is a statement-by-statement transcription   *)
(* of dynamic_import: one action per sys_path entry/exit, import attempt,  *)
(* error record, getattr step and raise.  CPython's import machinery       *)
(* (importlib._bootstrap._find_and_load, PathFinder precedence of regular  *)
(* modules over namespace portions, removal of a failed module from        *)
(* sys.modules, binding of sub-modules on the parent) is transcribed in    *)
(* ImportLevel / ImportFrom; the driver validates that transcription       *)
(* against the real CPython (disagreement = exit 2).                       *)
(* The contract (docstrings of dynamic_import / sys_path) is stated        *)
(* declaratively (Ref...) and checked as invariants of the final state.    *)
(* Relation to PyImport.tla (C05): that module models what import          *)
(* statements *bind* in namespaces; this one models which prefix of a      *)
(* dotted path is importable and what sys.path / sys.modules look like     *)
(* around the call.  Nothing is shared.                                    *)
(***************************************************************************)
EXTENDS Naturals, Sequences, FiniteSets, TLC, Json

CONSTANTS MaxLen,      \* longest dotted path
          FullLen,     \* paths up to this length are combined with every set-up and sys.path mutation
          BodyKinds,   \* what a module body does: "ok" or the exception it raises
          LongBodyKinds, \* the same for paths longer than FullLen
          AttrKinds,   \* what a container says about the next component
          Setups,      \* sys.path / import_paths set-ups (subset of AllSetups)
          PMuts,       \* sys.path mutations done by the first module's body
          PMutEverywhere, \* TRUE: mutations under every set-up; FALSE: under the three set-ups of PMutSetups
          Emit

VARIABLES n, mk, body, at, setup, pmut,                              \* the case
          pc, mparts, oparts, errors, S, old, value, pending, exc, outcome   \* the run
casevars == <<n, mk, body, at, setup, pmut>>
vars == <<casevars, pc, mparts, oparts, errors, S, old, value, pending, exc, outcome>>

\* ---- values (identities) -----------------------------------------------------------------------
Val(t, k, i) == [t |-> t, k |-> k, i |-> i]
Nil == Val("nil", 0, 0)
MVal(i) == Val("M", 0, i)        \* the module object of prefix i in directory R
XVal == Val("X", 0, 1)           \* the decoy module in directory X
OVal(k, i) == Val("O", k, i)     \* the object reached from module k by getattr of components k+1..i

AllSetups ==
  { [ip |-> <<>>, up |-> <<"R">>, ipk |-> "str"],          \* no import_paths: sys.path untouched
    [ip |-> <<>>, up |-> <<"X", "R">>, ipk |-> "str"],     \* ... decoy first on the user's sys.path
    [ip |-> <<"R">>, up |-> <<"E">>, ipk |-> "str"],       \* the inspector's usual call
    [ip |-> <<"R">>, up |-> <<"E">>, ipk |-> "path"],      \* ... with pathlib.Path entries
    [ip |-> <<"R">>, up |-> <<"X">>, ipk |-> "str"],       \* decoy only on the user's sys.path
    [ip |-> <<"E">>, up |-> <<"R">>, ipk |-> "str"],       \* only the user's sys.path could find it
    [ip |-> <<"R", "X">>, up |-> <<"E">>, ipk |-> "str"],
    [ip |-> <<"X", "R">>, up |-> <<"E">>, ipk |-> "str"],
    [ip |-> <<"E", "R">>, up |-> <<"X">>, ipk |-> "str"],
    [ip |-> <<"R">>, up |-> <<"R">>, ipk |-> "str"],       \* import_paths already on sys.path (the loader's
    [ip |-> <<"R">>, up |-> <<"X", "R">>, ipk |-> "str"] } \* default search paths): still a swap
\* not swapped / swapped / swapped although the import paths are on sys.path already
PMutSetups == {s \in AllSetups : s.ipk = "str" /\ s.up \in {<<"R">>, <<"E">>} /\ s.ip \in {<<>>, <<"R">>}}
DefaultSetup == [ip |-> <<"R">>, up |-> <<"E">>, ipk |-> "str"]

ExcClass(b) == CASE b = "exc" -> "ValueError" [] b = "sysexit" -> "SystemExit"
                 [] b = "kbint" -> "KeyboardInterrupt" [] b = "modnotfound" -> "ModuleNotFoundError"
                 [] b = "badstr" -> "BadStr" [] OTHER -> "none"

\* ---- the disk as seen through a sys.path value ---------------------------------------------------
HasRegular(d) == d = "X" \/ (d = "R" /\ mk[1] \in {"mod", "pkg"})
\* PathFinder: the first entry holding a regular module/package wins; namespace portions only count
\* when no entry holds a regular one.
Top(path) ==
  IF \E j \in 1..Len(path) : HasRegular(path[j])
  THEN path[CHOOSE j \in 1..Len(path) : HasRegular(path[j]) /\ \A l \in 1..(j-1) : ~HasRegular(path[l])]
  ELSE IF mk[1] = "ns" /\ \E j \in 1..Len(path) : path[j] = "R" THEN "R" ELSE "none"
EMk(t, i) == IF t = "R" THEN mk[i] ELSE IF t = "X" /\ i = 1 THEN "mod" ELSE "absent"
EBody(t, i) == IF t = "R" THEN body[i] ELSE "ok"
ModVal(t, i) == IF t = "X" THEN XVal ELSE MVal(i)

\* ---- CPython: state of the interpreter relevant to imports ------------------------------------
\*  mods  : projection of sys.modules on the universe            top : where component 1 was found
\*  execs : how often each module body of R was executed         xexec: same for the decoy
\*  lists : the list objects that have been bound to sys.path    cur : which of them is sys.path now
InitS(path) == [mods |-> {}, top |-> "none", execs |-> [i \in 1..MaxLen |-> 0], xexec |-> 0,
                lists |-> [l \in {"orig", "temp", "reb"} |-> IF l = "orig" THEN path ELSE <<>>],
                cur |-> "orig"]
InMods(St, i) == \E v \in St.mods : v.i = i

ApplyPMut(St) ==
  CASE pmut = "append" -> [St EXCEPT !.lists = [@ EXCEPT ![St.cur] = Append(@, "+")]]
    [] pmut = "rebind" -> [St EXCEPT !.lists = [@ EXCEPT !["reb"] = Append(St.lists[St.cur], "+")], !.cur = "reb"]
    [] OTHER -> St

\* _find_and_load(prefix i), its parent being in sys.modules already.
RECURSIVE ImportLevel(_, _)
ImportLevel(St, i) ==
  IF InMods(St, i) THEN [S |-> St, ok |-> TRUE, cls |-> "none", bad |-> FALSE]
  ELSE
    LET t == IF i = 1 THEN Top(St.lists[St.cur]) ELSE St.top
        kind == IF i = 1 THEN EMk(t, 1)
                ELSE IF EMk(t, i - 1) \in {"pkg", "ns"} THEN EMk(t, i) ELSE "absent"
    IN IF kind = "absent" THEN [S |-> St, ok |-> FALSE, cls |-> "ModuleNotFoundError", bad |-> FALSE]
       ELSE
         LET S1 == [St EXCEPT !.mods = @ \cup {ModVal(t, i)}, !.top = t]
             S2 == IF kind = "ns" THEN S1
                   ELSE IF t = "X" THEN [S1 EXCEPT !.xexec = @ + 1]
                   ELSE [S1 EXCEPT !.execs[i] = @ + 1]
             S3 == IF i = 1 /\ t = "R" /\ kind # "ns" THEN ApplyPMut(S2) ELSE S2
         IN IF kind # "ns" /\ EBody(t, i) # "ok"
            THEN \* the body raises: importlib removes the half-initialised module again
                 [S |-> [S3 EXCEPT !.mods = @ \ {ModVal(t, i)}], ok |-> FALSE,
                  cls |-> ExcClass(EBody(t, i)), bad |-> EBody(t, i) = "badstr"]
            ELSE IF t = "R" /\ kind = "pkg" /\ i < n /\ at[IF i < n THEN i + 1 ELSE i] = "shadow"
            THEN \* `try: import <prefix i+1>` / `except BaseException: pass`, then the name is rebound
                 [S |-> ImportLevel(S3, i + 1).S, ok |-> TRUE, cls |-> "none", bad |-> FALSE]
            ELSE [S |-> S3, ok |-> TRUE, cls |-> "none", bad |-> FALSE]

\* importlib.import_module(prefix m): parents first, stop at the first failure.
RECURSIVE ImportFrom(_, _, _)
ImportFrom(St, i, m) ==
  LET r == ImportLevel(St, i)
  IN IF ~r.ok \/ i >= m THEN r ELSE ImportFrom(r.S, i + 1, m)

\* getattr(v, component j) in interpreter state St
Attr(St, v, j) ==
  LET fail(c) == [ok |-> FALSE, v |-> Nil, cls |-> c]
      good(w) == [ok |-> TRUE, v |-> w, cls |-> "none"]
      byKind(a, k) == CASE a \in {"obj", "shadow"} -> good(OVal(k, j))
                        [] a = "raise" -> fail("RuntimeError")
                        [] OTHER -> fail("AttributeError")
  IN CASE v.t = "X" -> fail("AttributeError")
       [] v.t = "O" -> byKind(at[j], v.k)
       [] v.t = "M" ->
            IF mk[v.i] \in {"mod", "pkg"} /\ at[j] = "shadow" THEN good(OVal(v.i, j))
            ELSE IF MVal(j) \in St.mods THEN good(MVal(j))      \* bound on the parent by the import
            ELSE IF mk[v.i] \in {"mod", "pkg"} THEN byKind(at[j], v.i)
            ELSE fail("AttributeError")
       [] OTHER -> fail("AttributeError")

\* ---- the contract, declaratively ----------------------------------------------------------------
Eff == IF setup.ip = <<>> THEN setup.up ELSE setup.ip     \* "the paths to use when importing modules"
T0 == Top(Eff)
Importable(i) == \A j \in 1..i : /\ EMk(T0, j) # "absent"
                                 /\ (j > 1 => EMk(T0, j - 1) \in {"pkg", "ns"})
                                 /\ (EMk(T0, j) = "ns" \/ EBody(T0, j) = "ok")
RefK == IF \E i \in 1..n : Importable(i)
        THEN CHOOSE i \in 1..n : Importable(i) /\ \A l \in (i + 1)..n : ~Importable(l) ELSE 0
\* a fresh CPython with sys.path = Eff after import_module(prefix K) / after one attempt at the whole path
RefS(k) == IF k = 0 THEN InitS(Eff) ELSE ImportFrom(InitS(Eff), 1, k).S
RECURSIVE Walk(_, _, _)
Walk(St, v, j) == IF j > n THEN [ok |-> TRUE, v |-> v, cls |-> "none"]
                  ELSE LET r == Attr(St, v, j) IN IF r.ok THEN Walk(St, r.v, j + 1) ELSE r
RefErrCls(k) == LET f == k + 1 IN
  IF EMk(T0, f) = "absent" \/ (f > 1 /\ EMk(T0, f - 1) \notin {"pkg", "ns"}) THEN "ModuleNotFoundError"
  ELSE ExcClass(EBody(T0, f))
RefRecord ==
  LET k == RefK
      St == RefS(k)
      w == IF k = 0 THEN [ok |-> FALSE, v |-> Nil, cls |-> "none"] ELSE Walk(St, ModVal(T0, k), k + 1)
      \* the expression `import <prefix k>; c1.c2. ... .cn` (every step a getattr, also between modules)
      e == IF k = 0 THEN [ok |-> FALSE, v |-> Nil, cls |-> "none"] ELSE Walk(St, ModVal(T0, 1), 2)
      one == ImportFrom(InitS(setup.up), 1, n).S          \* plain CPython, sys.path untouched, one attempt
  IN [K |-> k, top |-> T0,
      kind |-> IF w.ok THEN "return" ELSE "raise", value |-> w.v,
      errors |-> [x \in 1..(n - k) |-> [stage |-> "import", m |-> n - x + 1, cls |-> RefErrCls(k)]]
                 \o (IF k > 0 /\ ~w.ok THEN <<[stage |-> "getattr", m |-> k, cls |-> w.cls]>> ELSE <<>>),
      mods |-> RefS(n).mods,
      spcur |-> IF setup.ip = <<>> THEN one.cur ELSE "orig",
      splist |-> IF setup.ip = <<>> THEN one.lists[one.cur] ELSE setup.up,
      expr |-> [ok |-> e.ok, v |-> e.v],
      shadowed |-> \E j \in 2..k : at[j] = "shadow",
      notfound |-> k = 0 /\ T0 = "none"]

VARIABLE ref

\* ---- case space ---------------------------------------------------------------------------------
Init ==
  /\ n \in 1..MaxLen
  /\ mk \in [1..n -> {"absent", "mod", "pkg", "ns"}]
  /\ \A i \in 2..n : mk[i] # "absent" => mk[i - 1] \in {"pkg", "ns"}
  /\ body \in [1..n -> IF n <= FullLen THEN BodyKinds ELSE LongBodyKinds]
  /\ \A i \in 1..n : mk[i] \notin {"mod", "pkg"} => body[i] = "ok"
  /\ at \in [1..n -> AttrKinds]
  /\ at[1] = "none"
  /\ \A i \in 2..n : at[i] = "shadow" => (mk[i - 1] = "pkg" /\ mk[i] # "absent")
  /\ setup \in (IF n <= FullLen THEN Setups ELSE {DefaultSetup})
  /\ pmut \in (IF n <= FullLen /\ mk[1] \in {"mod", "pkg"} /\ body[1] = "ok"
                    /\ (PMutEverywhere \/ setup \in PMutSetups) THEN PMuts ELSE {"none"})
  /\ ref = RefRecord
  /\ pc = "call" /\ mparts = n /\ oparts = <<>> /\ errors = <<>>
  /\ S = InitS(setup.up) /\ old = "none" /\ value = Nil
  /\ pending = [cls |-> "none", bad |-> FALSE] /\ exc = "none"
  /\ outcome = [kind |-> "none", cls |-> "none", value |-> Nil]

\* ---- dynamic_import, statement by statement ------------------------------------------------------
\* with sys_path(*(import_paths or ())):   old_path = sys.path; sys.path = [str(p) for p in paths]
EnterSysPath ==
  /\ pc = "call" /\ pc' = "loop"
  /\ IF setup.ip = <<>> THEN UNCHANGED <<S, old>>
     ELSE /\ old' = S.cur
          /\ S' = [S EXCEPT !.lists = [@ EXCEPT !["temp"] = setup.ip], !.cur = "temp"]
  /\ UNCHANGED <<casevars, ref, mparts, oparts, errors, value, pending, exc, outcome>>

\* module = import_module(".".join(module_parts))
ImportAttempt ==
  /\ pc = "loop" /\ mparts > 0
  /\ LET r == ImportFrom(S, 1, mparts) IN
       /\ S' = r.S
       /\ IF r.ok THEN /\ value' = ModVal(r.S.top, mparts) /\ pc' = "attrs" /\ UNCHANGED pending
          ELSE /\ pending' = [cls |-> r.cls, bad |-> r.bad] /\ pc' = "except" /\ UNCHANGED value
  /\ UNCHANGED <<casevars, ref, mparts, oparts, errors, old, exc, outcome>>

\* except BaseException as error: errors.append(_error_details(error, module_path)); object_parts.insert(0, module_parts.pop(-1))
RecordImportError ==
  /\ pc = "except"
  /\ IF pending.bad     \* f"{error}" itself raises inside the handler: that exception propagates
     THEN /\ exc' = "RuntimeError" /\ pc' = "unwind" /\ UNCHANGED <<errors, oparts, mparts>>
     ELSE /\ errors' = Append(errors, [stage |-> "import", m |-> mparts, cls |-> pending.cls])
          /\ oparts' = <<mparts>> \o oparts /\ mparts' = mparts - 1
          /\ pc' = "loop" /\ UNCHANGED exc
  /\ UNCHANGED <<casevars, ref, S, old, value, pending, outcome>>

\* while ... else: raise ImportError("; ".join(errors))
NothingImportable ==
  /\ pc = "loop" /\ mparts = 0
  /\ exc' = "ImportError" /\ pc' = "unwind"
  /\ UNCHANGED <<casevars, ref, mparts, oparts, errors, S, old, value, pending, outcome>>

\* for part in object_parts: value = getattr(value, part) / except BaseException: raise ImportError(...)
GetAttrStep ==
  /\ pc = "attrs" /\ oparts # <<>>
  /\ LET r == Attr(S, value, Head(oparts)) IN
       IF r.ok THEN /\ value' = r.v /\ oparts' = Tail(oparts) /\ UNCHANGED <<errors, exc, pc>>
       ELSE /\ errors' = Append(errors, [stage |-> "getattr", m |-> mparts, cls |-> r.cls])
            /\ exc' = "ImportError" /\ pc' = "unwind" /\ UNCHANGED <<value, oparts>>
  /\ UNCHANGED <<casevars, ref, mparts, S, old, pending, outcome>>

AttrsDone ==
  /\ pc = "attrs" /\ oparts = <<>> /\ pc' = "unwind"
  /\ UNCHANGED <<casevars, ref, mparts, oparts, errors, S, old, value, pending, exc, outcome>>

\* finally: sys.path = old_path   (leaving the with block, by return or by exception); return value
ExitSysPath ==
  /\ pc = "unwind" /\ pc' = "done"
  /\ S' = IF setup.ip = <<>> THEN S ELSE [S EXCEPT !.cur = old]
  /\ outcome' = IF exc = "none" THEN [kind |-> "return", cls |-> "none", value |-> value]
                ELSE [kind |-> "raise", cls |-> exc, value |-> Nil]
  /\ UNCHANGED <<casevars, ref, mparts, oparts, errors, old, value, pending, exc>>

Next == EnterSysPath \/ ImportAttempt \/ RecordImportError \/ NothingImportable \/ GetAttrStep
          \/ AttrsDone \/ ExitSysPath
Spec == Init /\ [][Next]_<<vars, ref>>

\* ---- properties (clauses of the contract; all about the final state unless said otherwise) -------
Done == pc = "done"
\* R: the object returned is importlib.import_module(<longest importable prefix>) followed by getattr
\*    of the remaining components; an ImportError when no prefix imports or an attribute access fails
ResultMatches == Done => /\ outcome.kind = ref.kind
                         /\ outcome.kind = "return" => outcome.value = ref.value
\* E1: whatever the imported code raises (Exception, SystemExit, KeyboardInterrupt) surfaces as ImportError
AlwaysImportError == Done /\ outcome.kind = "raise" => outcome.cls = "ImportError"
\* E2: the errors met along the way are all reported, in the order they were met
Aggregates == Done /\ outcome.kind = "raise" /\ outcome.cls = "ImportError" => errors = ref.errors
\* E3 (docstring `Raises:`): ModuleNotFoundError when the object's module could not be found at all
DocModuleNotFound == Done /\ ref.notfound => outcome.cls = "ModuleNotFoundError"
\* P1: sys.path is the very same list with the same content afterwards when import_paths were given;
\* P2: without import_paths the function does not touch sys.path (what is left is CPython's doing)
SysPathRestored == Done => S.cur = ref.spcur /\ S.lists[S.cur] = ref.splist
\* P3: the caller's list object is never mutated while it is swapped out
OrigUntouched == setup.ip # <<>> => S.lists["orig"] = setup.up
\* P4: while import_paths are given, imports see them and nothing else (precedence by replacement)
PathInside == (pc \in {"loop", "except", "attrs", "unwind"} /\ setup.ip # <<>>) =>
                 /\ S.cur # "orig"
                 /\ \A j \in 1..Len(S.lists[S.cur]) : S.lists[S.cur][j] \in {"+"} \cup {setup.ip[x] : x \in 1..Len(setup.ip)}
\* M1: sys.modules afterwards is what one plain CPython attempt at the whole path leaves
SysModulesAsCPython == Done => S.mods = ref.mods
\* M2: a module body that completes runs once however many attempts are made
BodyOnce == \A i \in 1..n : (mk[i] \in {"mod", "pkg"} /\ body[i] = "ok") => S.execs[i] <= 1
\* X: same object as the expression `import <prefix>; c1.c2...cn`, unless a package rebinds the name of
\*    one of its imported sub-modules (import_module answers from sys.modules, the expression from getattr)
ExprSameUnlessShadowed ==
  Done /\ outcome.kind = "return" /\ ~ref.shadowed => (ref.expr.ok /\ outcome.value = ref.expr.v)
ExprSame == Done /\ outcome.kind = "return" => (ref.expr.ok /\ outcome.value = ref.expr.v)
\* T: at most one attempt per component and one getattr failure
Bounded == Len(errors) <= n + 1 /\ mparts + Len(oparts) <= n

EmitCase ==
  (Emit /\ Done) =>
    PrintT(<<"CASE", ToJson([n |-> n, mk |-> mk, body |-> body, at |-> at, setup |-> setup, pmut |-> pmut,
                             impl |-> [outcome |-> outcome, errors |-> errors, mods |-> S.mods,
                                       execs |-> S.execs, xexec |-> S.xexec, spcur |-> S.cur,
                                       splist |-> S.lists[S.cur]],
                             ref |-> ref])>>)
=============================================================================
