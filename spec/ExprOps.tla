------------------------------ MODULE ExprOps ------------------------------
(***************************************************************************)
(* X04 - operations on stored expressions beyond building and rendering:   *)
(*   Expr.iterate(flat=False) (first layer), Expr.path / canonical_path /  *)
(*   canonical_name, is_classvar / is_tuple / is_iterator / is_generator,  *)
(*   Expr.modernize().                                                     *)
(*                                                                         *)
(* Shape A/T + a small state machine.  A *case* is an annotation: a chain  *)
(* of one-slot templates over the annotation grammar (typing aliases in    *)
(* every import spelling, PEP 585/604 forms, forward-reference strings,    *)
(* Literal, ClassVar, shadowing local classes) stored in a module whose    *)
(* header is fixed (Scope).  Node vocabulary, the builder and the iterate  *)
(* transcription are those of ExprBuild (INSTANCE, read-only):             *)
(*   GetExpression: built = EB!Build(tree, P0); expr = EB!ITree(tree,built)*)
(*   Observe: the reference values of every operation on `expr`            *)
(*   Rewrite(p): ONE modernisation step at position p of `cur`             *)
(* The rewrite system is the documented contract of `modernize()`          *)
(* (docs/guide/users/navigating.md "Modernization"): TLC explores the      *)
(* whole rewrite graph of every case and checks termination, confluence,   *)
(* idempotence, type preservation (Den = CPython's typing semantics),      *)
(* name preservation and that every intermediate term still renders as     *)
(* ExprBuild's reference demands.  gverif/props/x04.py replays every case  *)
(* on the real code with CPython as oracle.                                *)
(***************************************************************************)
EXTENDS Naturals, Sequences, FiniteSets, TLC, Json

CONSTANTS Depths,     \* chains of these many templates (subset of 1..4)
          SampleFrom, Stride, Offset,   \* sampling of the chains of SampleFrom or more templates: keep chain number k iff k % Stride = Offset
          Guarded,    \* TRUE: the rewrite rules carry their guards; FALSE: the naive rules (defect domain, model only)
          Rules,      \* "DE": documented + PEP 585 extras (what modernize MAY do);  "D": the documented six only
          Emit

VARIABLES P0,         \* strings are parsed (annotation evaluated now: no `from __future__ import annotations`)
          chain,      \* <<shape, ..., leaf shape>>
          tree,       \* the ast node of the annotation
          pc, built,
          expr,       \* the expression as built, in the node vocabulary (strings the builder re-parsed are expanded)
          obs,        \* reference values of the operations on expr
          nf, den0, keep0,
          cur,        \* the term after some modernisation steps
          cden, ckeep, crend, cred
casevars == <<P0, chain>>
vars == <<P0, chain, tree, pc, built, expr, obs, nf, den0, keep0, cur, cden, ckeep, crend, cred>>

\* ---- ExprBuild, read-only.  EBp follows the parse decision of the case, EBn never parses (used on built terms).
EBp == INSTANCE ExprBuild WITH Depth <- 2, Family <- "chain", Stride <- 1, Offset <- 0, Domain <- "all", Fixed <- {},
         Reverted <- {}, Emit <- FALSE, top <- "annotation", P0 <- P0, chain <- <<>>, tree <- tree, pc <- "", built <- built,
         impl <- <<>>, layer <- <<>>, ref <- <<>>, bad <- {}, srcnames <- <<>>
EBn == INSTANCE ExprBuild WITH Depth <- 2, Family <- "chain", Stride <- 1, Offset <- 0, Domain <- "all", Fixed <- {},
         Reverted <- {}, Emit <- FALSE, top <- "annotation", P0 <- FALSE, chain <- <<>>, tree <- cur, pc <- "", built <- <<>>,
         impl <- <<>>, layer <- <<>>, ref <- <<>>, bad <- {}, srcnames <- <<>>

N(t, op, kids) == EBn!N(t, op, kids)
Nm(x) == EBn!Nm(x)
At(v, a) == N("Attribute", a, <<v>>)
Sub(h, s) == N("Subscript", "", <<h, s>>)
TupN(es) == N("Tuple", "", es)
Lst(es) == N("List", "", es)
Or(l, r) == N("BinOp", "|", <<l, r>>)
NoneC == N("Const", "none", <<>>)
Dots == N("Const", "ellipsis", <<>>)
IntC == N("Const", "int", <<>>)
Str(c) == N("Const", "str", <<c>>)
Hole == Nm("_")
IsRawStr(n) == n.t = "Const" /\ n.op = "str"
IsNone(n) == n.t = "Const" /\ n.op = "none"

\* ================================================================================================
\* The module the annotation is stored in (its header is written by the driver from this table).
\*   import typing / import typing as t / import typing_extensions as te / import collections.abc / import collections.abc as cabc
\*   from typing import Callable, ClassVar, Dict, FrozenSet, Iterator, List, Literal, Optional, Set, Tuple, Type, Union
\*   from typing import List as L, Optional as Opt, Union as U, Tuple as Tup
\*   from collections.abc import Generator
\*   class K / class J / class Box(Generic[T]) / class ns: K2, f, and generic classes *named like* typing's:
\*   ns.Optional ns.Union ns.List ns.Dict ns.Tuple ns.ClassVar ns.Iterator ns.Generator   (canonical path m.ns.X)
\* Scope[name] = canonical path (sequence of segments) the name resolves to; unknown names (builtins) resolve to themselves.
\* ================================================================================================
TypingNames == {"Callable", "ClassVar", "Dict", "FrozenSet", "Iterator", "List", "Literal", "Optional", "Set", "Tuple", "Type", "Union"}
AsName == [List |-> "L", Optional |-> "Opt", Union |-> "U", Tuple |-> "Tup"]
AsOf == [L |-> "List", Opt |-> "Optional", U |-> "Union", Tup |-> "Tuple"]
Scope(x) ==
  CASE x \in TypingNames -> <<"typing", x>>
    [] x \in DOMAIN AsOf -> <<"typing", AsOf[x]>>
    [] x = "Generator" -> <<"collections", "abc", "Generator">>
    [] x \in {"typing", "t"} -> <<"typing">>
    [] x = "te" -> <<"typing_extensions">>
    [] x = "cabc" -> <<"collections", "abc">>
    [] x \in {"K", "J", "Box", "ns"} -> <<"m", x>>
    [] OTHER -> <<x>>                                  \* int str list dict set tuple frozenset type: not resolvable

RECURSIVE IsNameChain(_)
IsNameChain(n) == n.t = "Name" \/ (n.t = "Attribute" /\ IsNameChain(n.kids[1]))
RECURSIVE PathSegs(_)
PathSegs(n) == IF n.t = "Name" THEN <<n.op>> ELSE Append(PathSegs(n.kids[1]), n.op)         \* a.b.c as written
RECURSIVE CanonSegs(_)
CanonSegs(n) == IF n.t = "Name" THEN Scope(n.op) ELSE Append(CanonSegs(n.kids[1]), n.op)    \* ExprName.canonical_path
Last(s) == s[Len(s)]
\* typing alias X denoted by a canonical path: typing.X (documented) or typing_extensions.X (same objects)
AliasOf(c) == IF Len(c) = 2 /\ c[1] \in {"typing", "typing_extensions"} THEN c[2] ELSE ""
Documented(c) == Len(c) = 2 /\ c[1] = "typing"
Lower585 == [List |-> "list", Dict |-> "dict", Set |-> "set", Tuple |-> "tuple", FrozenSet |-> "frozenset", Type |-> "type"]
Doc585 == {"List", "Dict", "Set", "Tuple"}

\* ================================================================================================
\* Cases: chains of one-slot templates.  shape = [f form, h head, sp spelling]
\*   sp: "n" from-import name, "as" renamed import, "t" "typing" "te" "cabc" module attribute, "col" collections.abc.X,
\*       "ns" shadowing local class
\* ================================================================================================
Sh(f, h, sp) == [f |-> f, h |-> h, sp |-> sp]
H(x, sp) == CASE sp = "n" -> Nm(x) [] sp = "as" -> Nm(AsName[x]) [] sp = "col" -> At(At(Nm("collections"), "abc"), x)   \* collections.abc.X
               [] OTHER -> At(Nm(sp), x)
Leaf(x) ==
  CASE x = "int" -> Nm("int")
    [] x = "K" -> Nm("K")
    [] x = "None" -> NoneC
    [] x = "StrK" -> Str(Nm("K"))                                               \* "K"
    [] x = "StrOptK" -> Str(Sub(Nm("Optional"), Nm("K")))                       \* "Optional[K]"
    [] x = "StrListStr" -> Str(Sub(Nm("List"), Str(Nm("K"))))                   \* "List['K']"
    [] x = "BareList" -> Nm("List")
    [] x = "TList" -> At(Nm("t"), "List")
    [] x = "NsTuple" -> At(Nm("ns"), "Tuple")
    [] x = "NsK2" -> At(Nm("ns"), "K2")
    [] x = "LitK" -> Sub(Nm("Literal"), Str(Nm("K")))                           \* Literal["K"]
    [] x = "TLitK1" -> Sub(At(Nm("t"), "Literal"), TupN(<<Str(Nm("K")), IntC>>)) \* t.Literal["K", 1]
    [] x = "list" -> Sub(Nm("list"), Nm("int"))                                 \* list[int]: modern already
    \* values (stored as `v = ...`, only as a whole case): calls and their keywords have canonical paths too
    [] x = "CallKw" -> N("Call", "", <<Nm("Box"), Nm("K"), N("keyword", "k", <<Nm("J")>>)>>)                       \* Box(K, k=J)
    [] x = "TCast" -> N("Call", "", <<At(Nm("t"), "cast"), Nm("K"), N("keyword", "k", <<Nm("L")>>)>>)              \* t.cast(K, k=L)
    [] x = "NsF" -> N("Call", "", <<At(Nm("ns"), "f"), Nm("int"), N("keyword", "k", <<At(Nm("ns"), "K2")>>)>>)     \* ns.f(int, k=ns.K2)
ValueLeaves == {"CallKw", "TCast", "NsF"}
Leaves == ValueLeaves \cup {"int", "K", "None", "StrK", "StrOptK", "StrListStr", "BareList", "TList", "NsTuple", "NsK2", "LitK", "TLitK1", "list"}
Tmpl(s) ==
  LET hd == H(s.h, s.sp) IN
  CASE s.f = "leaf" -> Leaf(s.h)
    [] s.f = "U1" -> Sub(hd, Hole)                                              \* H[_]
    [] s.f = "A2" -> Sub(hd, TupN(<<Hole, Nm("int")>>))                          \* H[_, int]
    [] s.f = "B2" -> Sub(hd, TupN(<<Nm("str"), Hole>>))                          \* H[str, _]
    [] s.f = "M3" -> Sub(hd, TupN(<<Nm("int"), Hole, NoneC>>))                   \* H[int, _, None]
    [] s.f = "E2" -> Sub(hd, TupN(<<Hole, Dots>>))                               \* H[_, ...]
    [] s.f = "G3" -> Sub(hd, TupN(<<Hole, NoneC, NoneC>>))                       \* H[_, None, None]
    [] s.f = "OrL" -> Or(Hole, NoneC)                                           \* _ | None
    [] s.f = "OrR" -> Or(Nm("int"), Hole)                                       \* int | _
    [] s.f = "DL" -> Sub(Nm("Dict"), TupN(<<Hole, Sub(Nm("List"), Nm("int"))>>)) \* Dict[_, List[int]]: two redexes side by side
    [] s.f = "UO" -> Sub(Nm("Union"), TupN(<<Hole, Sub(Nm("Optional"), Nm("int"))>>))   \* Union[_, Optional[int]]
    [] s.f = "CL" -> Sub(Nm("Callable"), TupN(<<Lst(<<Hole>>), Nm("K")>>))       \* Callable[[_], K]
SlotPath(f) == CASE f = "U1" -> <<2>> [] f \in {"A2", "E2", "G3", "DL", "UO"} -> <<2, 1>> [] f \in {"B2", "M3"} -> <<2, 2>>
                 [] f = "OrL" -> <<1>> [] f = "OrR" -> <<2>> [] f = "CL" -> <<2, 1, 1>>

Heads(f) ==      \* head x spelling pairs of every form
  CASE f = "U1" -> ({"Optional", "List"} \X {"n", "as", "t", "typing", "te", "ns"}) \cup ({"Set", "Type", "Union"} \X {"n", "t"})
                   \cup ({"ClassVar"} \X {"n", "t", "te", "ns"}) \cup ({"Iterator"} \X {"n", "t", "cabc", "col", "ns"})
                   \cup ({"FrozenSet", "Box", "list", "set"} \X {"n"})
    [] f = "A2" -> ({"Dict"} \X {"n", "t", "ns"}) \cup ({"Union", "Tuple"} \X {"n", "as", "t", "te", "ns"}) \cup ({"dict", "tuple"} \X {"n"})
    [] f = "B2" -> {<<"Dict", "n">>, <<"Union", "n">>, <<"Union", "as">>}
    [] f = "M3" -> {"Union"} \X {"n", "t", "ns"}
    [] f = "E2" -> ({"Tuple"} \X {"n", "t", "ns"}) \cup {<<"tuple", "n">>}
    [] f = "G3" -> {"Generator"} \X {"n", "t", "cabc", "col", "ns"}
    [] OTHER -> {<<"", "">>}                                      \* OrL OrR DL UO CL: fixed text
Forms == {"U1", "A2", "B2", "M3", "E2", "G3", "OrL", "OrR", "DL", "UO", "CL"}
Slotted == UNION {{Sh(f, hs[1], hs[2]) : hs \in Heads(f)} : f \in Forms}
LeafShapes == {Sh("leaf", x, "") : x \in Leaves}

\* What CPython accepts (the module is executed by the oracle, with and without postponed evaluation):
\*  - ClassVar[...] only as the whole annotation;  - an operand of `|` is never a bare string and `None | None` does not exist
StrLeaves == {"StrK", "StrOptK", "StrListStr"}
ValidEdge(p, c) ==
  /\ c.h # "ClassVar"
  /\ p.f \in {"OrL", "OrR"} => ~(c.f = "leaf" /\ c.h \in StrLeaves)
  /\ p.f = "OrL" => ~(c.f = "leaf" /\ c.h = "None")
IsChain(ch) ==
  /\ Len(ch) \in Depths
  /\ \A i \in 1..Len(ch) : IF i = Len(ch) THEN ch[i] \in LeafShapes ELSE ch[i] \in Slotted
  /\ \A i \in 1..(Len(ch) - 1) : ValidEdge(ch[i], ch[i + 1])
  /\ ch[Len(ch)].h \in ValueLeaves => Len(ch) = 1

RECURSIVE Compose(_)
Compose(ch) == IF Len(ch) = 1 THEN Tmpl(ch[1]) ELSE EBn!Plug(Tmpl(ch[1]), SlotPath(ch[1].f), Compose(Tail(ch)))
RECURSIVE HasStr(_)
HasStr(n) == IsRawStr(n) \/ \E i \in 1..Len(n.kids) : HasStr(n.kids[i])

\* chain number (sampling): a linear hash of the shape indices, independent of TLC's enumeration order
FormNo == [U1 |-> 1, A2 |-> 2, B2 |-> 3, M3 |-> 4, E2 |-> 5, G3 |-> 6, OrL |-> 7, OrR |-> 8, DL |-> 9, UO |-> 10, CL |-> 11, leaf |-> 12]
SpNo == [n |-> 1, as |-> 2, t |-> 3, typing |-> 4, te |-> 5, ns |-> 6, cabc |-> 7, col |-> 8]
HeadNo(h) == CASE h \in {"Optional", "int"} -> 1 [] h \in {"List", "K"} -> 2 [] h \in {"Set", "None"} -> 3 [] h \in {"Type", "StrK"} -> 4
               [] h \in {"Union", "StrOptK"} -> 5 [] h \in {"ClassVar", "StrListStr"} -> 6 [] h \in {"Iterator", "BareList"} -> 7
               [] h \in {"FrozenSet", "TList"} -> 8 [] h \in {"Box", "NsTuple"} -> 9 [] h \in {"list", "NsK2"} -> 10 [] h \in {"set", "LitK"} -> 11
               [] h \in {"Dict", "TLitK1"} -> 12 [] h = "Tuple" -> 13 [] h = "dict" -> 14 [] h = "tuple" -> 15 [] h = "Generator" -> 16 [] OTHER -> 17
ShapeNo(s) == FormNo[s.f] * 131 + HeadNo(s.h) * 17 + (IF s.sp = "" THEN 0 ELSE SpNo[s.sp])
RECURSIVE ChainNo(_)
ChainNo(ch) == IF ch = <<>> THEN 0 ELSE (ShapeNo(ch[1]) + 7 * ChainNo(Tail(ch))) % 1000003
Sampled(ch) == Stride = 1 \/ Len(ch) < SampleFrom \/ ChainNo(ch) % Stride = Offset

\* ================================================================================================
\* Reference of the observations (what each public operation must return on `expr`)
\* ================================================================================================
ClassOf(n) ==      \* the Expr class of a built node; "" = a plain string item
  CASE n.t = "Name" -> "ExprName" [] n.t = "Attribute" -> "ExprAttribute" [] n.t = "Subscript" -> "ExprSubscript"
    [] n.t = "Tuple" -> "ExprTuple" [] n.t = "List" -> "ExprList" [] n.t = "BinOp" -> "ExprBinOp" [] n.t = "Call" -> "ExprCall"
    [] n.t = "keyword" -> "ExprKeyword" [] OTHER -> ""
RECURSIVE ChainNames(_)
ChainNames(n) == IF n.t = "Name" THEN <<n>> ELSE Append(ChainNames(n.kids[1]), n)       \* the names of a.b.c: a, a.b, a.b.c
\* first layer: the direct sub-expressions, in order (an ExprName yields itself, an attribute chain yields its names)
LI(n, cls) == [n |-> n, cls |-> cls]
Layer(n) ==
  CASE IsNameChain(n) -> [i \in 1..Len(ChainNames(n)) |-> LI(ChainNames(n)[i], "ExprName")]
    [] n.t = "Const" -> <<>>
    [] OTHER -> LET ks == SelectSeq(n.kids, LAMBDA k : ClassOf(k) # "") IN [i \in 1..Len(ks) |-> LI(ks[i], ClassOf(ks[i]))]
\* path / canonical_path: a dotted path for names, attributes, subscripts (their left part) and calls (canonical: the function),
\* `f(param)` for keywords of a call, the rendered text for everything else
Dotted(segs) == [k |-> "dotted", segs |-> segs, arg |-> ""]
TextOnly == [k |-> "text", segs |-> <<>>, arg |-> ""]
RECURSIVE PathOf(_)
PathOf(n) == CASE IsNameChain(n) -> Dotted(PathSegs(n))
               [] n.t = "Subscript" -> PathOf(n.kids[1])
               [] OTHER -> TextOnly
RECURSIVE CanonOf(_, _)
CanonOf(n, fn) ==      \* fn: the function of the call this keyword belongs to (<<>> elsewhere)
  CASE IsNameChain(n) -> Dotted(CanonSegs(n))
    [] n.t \in {"Subscript", "Call"} -> CanonOf(n.kids[1], <<>>)
    [] n.t = "keyword" /\ fn # <<>> -> [CanonOf(fn[1], <<>>) EXCEPT !.k = "param", !.arg = n.op]
    [] OTHER -> TextOnly
CanonName(n, fn) ==    \* canonical_name: last component of the canonical path; the parameter name for a keyword; "" = not specified
  LET c == CanonOf(n, fn) IN IF c.k = "param" THEN c.arg ELSE IF c.k = "dotted" THEN Last(c.segs) ELSE ""
\* classifiers.  Strict: the subscripted name *resolves to* the typing construct.  Lax (transcription of the code): last component only.
Family(x) == IF x = "tuple" THEN {<<"tuple">>, <<"typing", "Tuple">>, <<"typing_extensions", "Tuple">>}
             ELSE {<<"typing", x>>, <<"typing_extensions", x>>} \cup (IF x = "ClassVar" THEN {} ELSE {<<"collections", "abc", x>>})
Lowered(s) == IF s = "Tuple" THEN "tuple" ELSE s
Classify(n, strict) ==
  LET sub == n.t = "Subscript" /\ IsNameChain(n.kids[1])
      c == IF sub THEN CanonSegs(n.kids[1]) ELSE <<"">>
      is(x) == sub /\ (IF strict THEN c \in Family(x) ELSE (IF x = "tuple" THEN Lowered(Last(c)) = "tuple" ELSE Last(c) = x))
  IN [classvar |-> is("ClassVar"), tuple |-> is("tuple"), iterator |-> is("Iterator"), generator |-> is("Generator")]
ObsOf(n, cls, fn) == [cls |-> cls, path |-> PathOf(n), canon |-> CanonOf(n, fn), cname |-> CanonName(n, fn),
                 strict |-> Classify(n, TRUE), lax |-> Classify(n, FALSE)]
RECURSIVE NameElems(_, _)
NameElems(n, lit) ==   \* every ExprName element of the flat iteration: name, path, canonical path
  CASE IsNameChain(n) -> [i \in 1..Len(ChainNames(n)) |-> LET x == ChainNames(n)[i] IN [name |-> x.op, path |-> PathSegs(x), canon |-> CanonSegs(x)]]
    [] n.t = "Const" -> <<>>
    [] OTHER -> LET RECURSIVE cat(_)
                    cat(i) == IF i > Len(n.kids) THEN <<>> ELSE NameElems(n.kids[i], lit) \o cat(i + 1)
                IN cat(1)

\* ================================================================================================
\* The rewrite system of modernize().  Documented (class "D"):
\*   typing.Optional[A] -> A | None       typing.Union[A, B, ...] -> A | B | ...
\*   typing.List[A] -> list[A]   typing.Dict[A, B] -> dict[A, B]   typing.Set[A] -> set[A]   typing.Tuple[A] -> tuple[A]
\* Permitted extras (class "E"; PEP 585 / identities of CPython, same objects through typing_extensions):
\*   Union[A] -> A   FrozenSet -> frozenset   Type -> type   the same through typing_extensions.X   an unsubscripted alias
\* A rule is keyed on the CANONICAL path of the subscripted name (never on its spelling: `ns.Union[...]` is somebody
\* else's class), nothing below the slice of Literal[...] and nothing inside an un-parsed string is touched.
\* Guards (Guarded): `|` needs operands that implement it - no bare string ("K" | None is a TypeError even with
\* postponed evaluation, typing.get_type_hints evaluates the text) and not None | None.
\* ================================================================================================
IsLiteralHead(h) == IsNameChain(h) /\ AliasOf(CanonSegs(h)) = "Literal"
OrOk(a, b) == ~Guarded \/ (~IsRawStr(a) /\ ~IsRawStr(b) /\ ~(IsNone(a) /\ IsNone(b)))
RECURSIVE FoldOr(_, _)
FoldOr(acc, es) == IF es = <<>> THEN acc ELSE FoldOr(Or(acc, es[1]), Tail(es))              \* left-nested, as the parser reads A | B | C
RECURSIVE FoldOk(_, _)
FoldOk(acc, es) == es = <<>> \/ (OrOk(acc, es[1]) /\ FoldOk(Or(acc, es[1]), Tail(es)))
\* the rule applicable AT node n (sub: n is the left part of a subscript): <<class, contractum>> or <<>>
RuleAt(n, sub) ==
  IF n.t = "Subscript" /\ IsNameChain(n.kids[1]) THEN
     LET c == CanonSegs(n.kids[1])   a == AliasOf(c)   s == n.kids[2]   cl == IF Documented(c) THEN "D" ELSE "E" IN
     IF a = "Optional" /\ s.t # "Tuple" /\ OrOk(s, NoneC) THEN <<cl, Or(s, NoneC)>>
     ELSE IF a = "Union" /\ s.t = "Tuple" /\ Len(s.kids) >= 2 /\ FoldOk(s.kids[1], Tail(s.kids)) THEN <<cl, FoldOr(s.kids[1], Tail(s.kids))>>
     ELSE IF a = "Union" /\ s.t # "Tuple" /\ (~Guarded \/ (~IsRawStr(s) /\ ~IsNone(s))) THEN <<"E", s>>   \* would hand a bare string / None to an enclosing `|`
     ELSE <<>>
  ELSE IF IsNameChain(n) /\ AliasOf(CanonSegs(n)) \in DOMAIN Lower585 THEN
     LET c == CanonSegs(n)   a == AliasOf(c) IN
     <<IF sub /\ Documented(c) /\ a \in Doc585 THEN "D" ELSE "E", Nm(Lower585[a])>>
  ELSE <<>>
InRules(r, R) == r # <<>> /\ (R = "DE" \/ r[1] = "D")
\* redex positions: paths into kids; the parts of a name chain are not positions of their own
RECURSIVE Redexes(_, _, _, _)
Redexes(n, path, sub, R) ==
  (IF InRules(RuleAt(n, sub), R) THEN {path} ELSE {})
  \cup (IF IsNameChain(n) \/ n.t = "Const" THEN {}
        ELSE UNION {IF n.t = "Subscript" /\ i = 2 /\ IsLiteralHead(n.kids[1]) THEN {}
                    ELSE Redexes(n.kids[i], Append(path, i), n.t = "Subscript" /\ i = 1, R) : i \in 1..Len(n.kids)})
RECURSIVE NodeAt(_, _)
NodeAt(n, path) == IF path = <<>> THEN n ELSE NodeAt(n.kids[path[1]], Tail(path))
IsLeft(n, path) == path # <<>> /\ path[Len(path)] = 1 /\ NodeAt(n, SubSeq(path, 1, Len(path) - 1)).t = "Subscript"
Step(n, path) == EBn!Plug(n, path, RuleAt(NodeAt(n, path), IsLeft(n, path))[2])
AllRedexes(n, R) == Redexes(n, <<>>, FALSE, R)
\* innermost-leftmost normalisation (a function: the reference result of a complete modernize())
RECURSIVE Normalize(_, _, _)
Normalize(n, sub, R) ==
  LET kids == [i \in 1..Len(n.kids) |->
                 IF IsNameChain(n) \/ n.t = "Const" \/ (n.t = "Subscript" /\ i = 2 /\ IsLiteralHead(n.kids[1])) THEN n.kids[i]
                 ELSE Normalize(n.kids[i], n.t = "Subscript" /\ i = 1, R)]
      m == [n EXCEPT !.kids = kids]
      r == RuleAt(m, sub)
  IN IF InRules(r, R) THEN Normalize(r[2], sub, R) ELSE m

\* ================================================================================================
\* CPython's typing semantics (transcription; validated against typing.get_type_hints by the driver):
\*   <<"c", path>> a class / special form without arguments     <<"g", origin, args>> a parameterised generic
\*   <<"u", set>> a union: flattened, duplicates removed, order irrelevant, a union of one member is that member
\*   <<"l", values>> Literal    <<"L", items>> a list (Callable's parameters)    <<"v", x>> a value    <<"err">> TypeError
\* typing.X and typing_extensions.X denote their runtime origin (typing.List is list, typing.Iterator is collections.abc.Iterator)
\* a string at a type position is a forward reference (get_type_hints evaluates it in the module); under Literal it is a value
\* ================================================================================================
Origin(c) ==
  LET a == AliasOf(c) IN
  IF a \in DOMAIN Lower585 THEN <<Lower585[a]>>
  ELSE IF a \in {"Iterator", "Generator", "Callable"} THEN <<"collections", "abc", a>>
  ELSE IF a # "" THEN <<"typing", a>>
  ELSE c
IsErr(d) == d = <<"err">>
UnionOf(ds) ==
  IF \E i \in 1..Len(ds) : IsErr(ds[i]) THEN <<"err">> ELSE
  LET flat == UNION {IF ds[i][1] = "u" THEN ds[i][2] ELSE {ds[i]} : i \in 1..Len(ds)}
  IN IF Cardinality(flat) = 1 THEN CHOOSE d \in flat : TRUE ELSE <<"u", flat>>
RECURSIVE Den(_, _)
DenAll(ns, lit) == [i \in 1..Len(ns) |-> Den(ns[i], lit)]
AnyErr(ds) == \E i \in 1..Len(ds) : IsErr(ds[i])
Den(n, lit) ==
  CASE IsNameChain(n) -> <<"c", Origin(CanonSegs(n))>>
    [] n.t = "Const" -> IF n.op = "str" THEN (IF lit THEN <<"v", "str">> ELSE Den(n.kids[1], FALSE))
                        ELSE IF lit THEN <<"v", n.op>> ELSE <<"c", <<n.op>>>>
    [] n.t = "List" -> LET ds == DenAll(n.kids, lit) IN IF AnyErr(ds) THEN <<"err">> ELSE <<"L", ds>>
    [] n.t = "BinOp" -> IF IsRawStr(n.kids[1]) \/ IsRawStr(n.kids[2]) \/ (IsNone(n.kids[1]) /\ IsNone(n.kids[2])) THEN <<"err">>
                        ELSE UnionOf(DenAll(n.kids, lit))
    [] n.t = "Subscript" ->
         LET h == n.kids[1]   s == n.kids[2]
             c == IF IsNameChain(h) THEN CanonSegs(h) ELSE <<"?">>   a == AliasOf(c)
             args == IF s.t = "Tuple" THEN s.kids ELSE <<s>>
             ds == DenAll(args, lit \/ a = "Literal")
         IN IF AnyErr(ds) THEN <<"err">>
            ELSE IF a = "Union" THEN UnionOf(ds)
            ELSE IF a = "Optional" THEN UnionOf(Append(ds, <<"c", <<"none">>>>))
            ELSE IF a = "Literal" THEN <<"l", ds>>
            ELSE <<"g", Origin(c), ds>>
    [] n.t = "Call" -> <<"na">>                       \* a value, not a type
    [] OTHER -> <<"err">>

\* the canonical paths of the names of a term, in order, the rewritable aliases and their builtin targets left out
Rewritable(c) == (AliasOf(c) \in {"Optional", "Union"} \cup DOMAIN Lower585) \/ (Len(c) = 1 /\ c[1] \in {Lower585[k] : k \in DOMAIN Lower585})
RECURSIVE KeepNames(_)
KeepNames(n) ==
  CASE IsNameChain(n) -> IF Rewritable(CanonSegs(n)) THEN <<>> ELSE <<CanonSegs(n)>>
    [] n.t = "Const" -> <<>>
    [] OTHER -> LET RECURSIVE cat(_)
                    cat(i) == IF i > Len(n.kids) THEN <<>> ELSE KeepNames(n.kids[i]) \o cat(i + 1)
                IN cat(1)
RECURSIVE AliasCount(_)
AliasCount(n) ==      \* termination measure: every rule removes one name that resolves to a typing alias
  IF IsNameChain(n) THEN (IF AliasOf(CanonSegs(n)) # "" THEN 1 ELSE 0)
  ELSE IF n.t = "Const" THEN 0
  ELSE LET RECURSIVE sum(_)
           sum(i) == IF i > Len(n.kids) THEN 0 ELSE AliasCount(n.kids[i]) + sum(i + 1)
       IN sum(1)

\* ================================================================================================
\* Behaviour
\* ================================================================================================
Env0(p) == EBn!Env(p, FALSE, FALSE, FALSE, FALSE)
Unwrap(x) == IF x.c = "Parsed" THEN x.kids[1] ELSE x
ImplLayer(b) ==      \* classes of the sub-expressions ExprBuild's transcription of iterate(flat=False) yields
  LET items == EBn!Iterate(Unwrap(b), FALSE)
      es == SelectSeq(items, LAMBDA it : it[1] = "n" \/ (it[1] = "e" /\ Unwrap(it[2]).c \notin {"lit", "quoted", "raw"}))   \* constants are plain strings; an ExprName yields itself
  IN [i \in 1..Len(es) |-> IF es[i][1] = "n" THEN "ExprName" ELSE Unwrap(es[i][2]).c]
RendersRight(n) ==   \* a term renders as ExprBuild's reference demands: no defect record, same items as RefRender
  LET b == EBn!Build(n, Env0(FALSE)) IN
  [bad |-> EBn!Walk(n, b, EBn!TopReq, EBn!TopPt, "top", EBn!Ctx(TRUE, FALSE, FALSE), FALSE),
   same |-> EBn!Strip(EBn!Iterate(b, TRUE)) = EBn!Strip(EBn!RefRender(n, b, EBn!TopReq))]

Init ==
  /\ P0 \in BOOLEAN
  /\ \E d \in Depths : \E body \in [1..(d - 1) -> Slotted], lf \in LeafShapes : chain = body \o <<lf>>
  /\ IsChain(chain) /\ Sampled(chain)
  /\ tree = <<>> /\ pc = "source" /\ built = <<>> /\ expr = <<>> /\ obs = <<>> /\ nf = <<>> /\ den0 = <<>> /\ keep0 = <<>>
  /\ cur = <<>> /\ cden = <<>> /\ ckeep = <<>> /\ crend = <<>> /\ cred = {}

AstParse ==            \* the annotation is parsed (a case without strings is the same with and without postponed evaluation)
  /\ pc = "source"
  /\ tree' = Compose(chain)
  /\ pc' = IF P0 /\ ~HasStr(tree') THEN "skip" ELSE "case"
  /\ UNCHANGED <<casevars, built, expr, obs, nf, den0, keep0, cur, cden, ckeep, crend, cred>>

GetExpression ==       \* get_expression(node, module, parse_strings=P0)
  /\ pc = "case"
  /\ built' = EBp!Build(tree, Env0(P0))
  /\ expr' = EBp!ITree(tree, built')
  /\ pc' = "built"
  /\ UNCHANGED <<casevars, tree, obs, nf, den0, keep0, cur, cden, ckeep, crend, cred>>

Observe ==             \* every read-only operation on the expression; modernize() starts from it
  /\ pc = "built"
  /\ obs' = [top |-> ObsOf(expr, ClassOf(expr), <<>>),
             kids |-> [i \in 1..Len(Layer(expr)) |-> ObsOf(Layer(expr)[i].n, Layer(expr)[i].cls, IF expr.t = "Call" THEN <<expr.kids[1]>> ELSE <<>>)],
             elems |-> NameElems(expr, FALSE),
             impllayer |-> ImplLayer(built)]
  /\ nf' = [de |-> Normalize(expr, FALSE, "DE"), d |-> Normalize(expr, FALSE, "D")]
  /\ den0' = Den(expr, FALSE) /\ keep0' = KeepNames(expr)
  /\ cur' = expr /\ cden' = Den(expr, FALSE) /\ ckeep' = KeepNames(expr) /\ crend' = RendersRight(expr)
  /\ cred' = AllRedexes(expr, Rules)
  /\ pc' = "modernize"
  /\ UNCHANGED <<casevars, tree, built, expr>>

Rewrite ==             \* one modernisation step somewhere in the term
  /\ pc = "modernize"
  /\ \E p \in cred :
       LET c == Step(cur, p) IN
       /\ cur' = c /\ cden' = Den(c, FALSE) /\ ckeep' = KeepNames(c) /\ crend' = RendersRight(c) /\ cred' = AllRedexes(c, Rules)
  /\ UNCHANGED <<casevars, tree, pc, built, expr, obs, nf, den0, keep0>>

Next == AstParse \/ GetExpression \/ Observe \/ Rewrite
Spec == Init /\ [][Next]_vars

\* ================================================================================================
\* The clauses (decided by TLC on the model)
\* ================================================================================================
Mod == pc = "modernize"
Fresh == Mod /\ cur = expr
\* the generated annotations are meaningful to CPython
SourceTypeOk == Mod => ~IsErr(den0)
\* (M1) termination: every step removes a typing alias
Terminates == [][(Mod /\ pc' = "modernize") => AliasCount(cur') < AliasCount(cur)]_vars
\* (M2) confluence: whatever the order of the steps, the term that cannot be rewritten any more is the same
Confluent == (Mod /\ cred = {}) => cur = (IF Rules = "DE" THEN nf.de ELSE nf.d)
StrategyFree == Mod => Normalize(cur, FALSE, Rules) = (IF Rules = "DE" THEN nf.de ELSE nf.d)
\* (M3) idempotence of the complete modernisation
Idempotent == Fresh => /\ Normalize(nf.de, FALSE, "DE") = nf.de /\ AllRedexes(nf.de, "DE") = {}
                       /\ Normalize(nf.d, FALSE, "D") = nf.d /\ AllRedexes(nf.d, "D") = {}
                       /\ Normalize(nf.d, FALSE, "DE") = nf.de
\* (M4) type preservation: every intermediate term denotes the type of the original annotation
TypePreserved == Mod => cden = den0
\* (M5) the names that are not rewritten keep their canonical paths, in order
NamesPreserved == Mod => ckeep = keep0
\* (M6) confluence with rendering: every intermediate term renders as ExprBuild's reference demands (parentheses of a
\* union that became the right operand of `|`, implicit tuples only as slices)
RenderCommutes == Mod => (crend.bad = {} /\ crend.same)
\* (I2) first layer: ExprBuild's transcription of iterate(flat=False) yields exactly the direct sub-expressions of the term
LayerAgrees == Fresh => obs.impllayer = [i \in 1..Len(Layer(expr)) |-> Layer(expr)[i].cls]
\* (K) the code's last-component classifiers differ from the strict reading only for classes that shadow typing's names
LaxOnlyDiffersOnShadows == Fresh => (obs.top.strict # obs.top.lax => (obs.top.canon.k = "dotted" /\ obs.top.canon.segs[1] = "m"))
\* nothing is rewritten inside Literal[...] or inside an un-parsed string, shadowing classes are left alone
RECURSIVE Protected(_, _)
Protected(n, lit) ==      \* the protected parts of a term, in order
  IF IsRawStr(n) THEN <<n>>
  ELSE IF n.t = "Subscript" /\ IsNameChain(n.kids[1]) /\ (IsLiteralHead(n.kids[1]) \/ CanonSegs(n.kids[1])[1] = "m") THEN
       (IF IsLiteralHead(n.kids[1]) THEN <<n>> ELSE <<n.kids[1]>> \o Protected(n.kids[2], lit))
  ELSE IF IsNameChain(n) \/ n.t = "Const" THEN <<>>
  ELSE LET RECURSIVE cat(_)
           cat(i) == IF i > Len(n.kids) THEN <<>> ELSE Protected(n.kids[i], lit) \o cat(i + 1)
       IN cat(1)
ProtectedUntouched == Mod => Protected(cur, FALSE) = Protected(expr, FALSE)

CaseId == [P0 |-> P0, chain |-> chain]
EmitCase ==
  (Emit /\ Mod) =>
     IF cur = expr
     THEN PrintT(<<"CASE", ToJson([k |-> "case", id |-> CaseId, tree |-> tree, expr |-> expr, obs |-> obs, nf |-> nf, den |-> den0,
                                   keep |-> keep0, terminal |-> cred = {}, dnormal |-> AllRedexes(cur, "D") = {}])>>)
     ELSE PrintT(<<"CASE", ToJson([k |-> "step", id |-> CaseId, cur |-> cur, terminal |-> cred = {}, dnormal |-> AllRedexes(cur, "D") = {}])>>)
=============================================================================
