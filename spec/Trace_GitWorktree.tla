------------------------- MODULE Trace_GitWorktree -------------------------
(***************************************************************************)
(* Trace validation for C20: executions of the REAL tmp_worktree /         *)
(* load_git / check, recorded step by step by gverif/props/c20_worker.py   *)
(* against real git repositories, must be behaviours of GitWorktree.       *)
(*                                                                         *)
(* Input: an ndjson file (IOEnv.TRACE_FILE), ONE TRACE PER LINE:           *)
(*   {tid, plan, init: <snapshot>, events: [{ev, phase, post: <snapshot>,  *)
(*    rc?, ok?, exc?, at?, outcome?, exitcode?}, ...]}                     *)
(* where <snapshot> is the projection of `git worktree list --porcelain`,  *)
(* the branch list, `git status --porcelain`, HEAD and the listing of      *)
(* tempfile.gettempdir() onto GitWorktree's variables.                     *)
(*                                                                         *)
(* Every trace action is  IsEvent(name) /\ <the action of GitWorktree>     *)
(* /\ <logged post-state = primed variables>.  Variables that are not      *)
(* logged (pc, pending, inTry, lines, imported) are chosen by the original *)
(* action.  The whole batch is validated in one TLC run: the initial       *)
(* states are the traces (variable tr);  a trace is accepted iff a state   *)
(* with i = number of its events is reached.  Progress is printed for      *)
(* every state, mismatches are printed with the spec's expectation, the    *)
(* POSTCONDITION prints the number of accepted traces.                     *)
(***************************************************************************)
EXTENDS GitWorktree, IOUtils, TLCExt

Traces == ndJsonDeserialize(IOEnv.TRACE_FILE)

\* TLC re-evaluates (re-parses) Traces on every reference: the trace being validated is therefore carried
\* in a variable, and the batch is read once, when the initial states are enumerated.
VARIABLES tr,    \* the trace being validated (one initial state per trace of the batch)
          i      \* number of events consumed
tvars == <<vars, tr, i>>

T == tr
NEv == Len(T.events)
Ev == T.events[i + 1]
ToSet(s) == {s[k] : k \in DOMAIN s}
Has(e, f) == f \in DOMAIN e

\* the logged post-state equals the successor computed by the spec action
PostOK(e) ==
  /\ head' = e.post.head
  /\ status' = e.post.status
  /\ branches' = ToSet(e.post.branches)
  /\ worktrees' = ToSet(e.post.worktrees)
  /\ tmpDirs' = ToSet(e.post.tmpDirs)
  /\ wtDirty' = e.post.wtDirty
  /\ (IF Has(e, "rc") THEN lastrc' = e.rc ELSE TRUE)
  \* stage completed normally <=> control did not enter the finally clause with an exception
  /\ (IF Has(e, "ok") THEN e.ok = (pending' = "none") ELSE TRUE)

Expected == [head |-> head', status |-> status', branches |-> branches', worktrees |-> worktrees',
             tmpDirs |-> tmpDirs', wtDirty |-> wtDirty', lastrc |-> lastrc', pending |-> pending', pc |-> pc']

Match(name, A) ==
  /\ i < NEv
  /\ Ev.ev = name
  /\ Ev.phase = phase
  /\ A
  /\ IF PostOK(Ev)
       THEN i' = i + 1 /\ tr' = tr
       ELSE /\ PrintT(<<"NOTE", ToJson([tid |-> T.tid, i |-> i, ev |-> name, why |-> "post-state", expected |-> Expected, logged |-> Ev.post,
                                          rc |-> IF Has(Ev, "rc") THEN Ev.rc ELSE lastrc', ok |-> IF Has(Ev, "ok") THEN Ev.ok ELSE (pending' = "none")])>>)
            /\ FALSE

\* load_git returned / raised: the exception class that left it is the one the spec has in flight
TEndLoad ==
  /\ i < NEv /\ Ev.ev = "EndLoad"
  /\ IF Ev.exc = pending THEN TRUE
     ELSE PrintT(<<"NOTE", ToJson([tid |-> T.tid, i |-> i, ev |-> "EndLoad", why |-> "exception", expected |-> pending, logged |-> Ev.exc])>>) /\ FALSE
  /\ Match("EndLoad", EndLoad)

TDiff ==
  /\ i < NEv /\ Ev.ev = "Diff"
  /\ Match("Diff", Diff)
  /\ IF exitcode' = Ev.exitcode THEN TRUE
     ELSE PrintT(<<"NOTE", ToJson([tid |-> T.tid, i |-> i, ev |-> "Diff", why |-> "exitcode", expected |-> exitcode', logged |-> Ev.exitcode])>>) /\ FALSE

\* the top-level call is over: outcome and exit code as the spec says; the state does not move
Finish ==
  /\ i < NEv /\ Ev.ev = "Finish" /\ pc = "Done"
  /\ IF Ev.outcome = outcome /\ Ev.exitcode = exitcode THEN TRUE
     ELSE PrintT(<<"NOTE", ToJson([tid |-> T.tid, i |-> i, ev |-> "Finish", why |-> "outcome",
                                   expected |-> [outcome |-> outcome, exitcode |-> exitcode],
                                   logged |-> [outcome |-> Ev.outcome, exitcode |-> Ev.exitcode]])>>) /\ FALSE
  /\ UNCHANGED vars
  /\ IF PostOK(Ev) THEN i' = i + 1 /\ tr' = tr
     ELSE PrintT(<<"NOTE", ToJson([tid |-> T.tid, i |-> i, ev |-> "Finish", why |-> "post-state", expected |-> Expected, logged |-> Ev.post])>>) /\ FALSE

TNext ==
  \/ Match("LatestTag", LatestTag) \/ Match("RepoRoot", RepoRoot)
  \/ Match("AssertRepo", AssertRepo) \/ Match("MkTmp", MkTmp) \/ Match("WorktreeAdd", WorktreeAdd)
  \/ Match("EnterTry", EnterTry) \/ Match("Find", Find) \/ Match("Analyse", Analyse)
  \/ Match("ExtensionHook", ExtensionHook) \/ Match("ResolveAliases", ResolveAliases) \/ Match("Return", Return)
  \/ Match("WorktreeRemove", WorktreeRemove) \/ Match("Prune", Prune) \/ Match("BranchDelete", BranchDelete)
  \/ Match("RmTmp", RmTmp) \/ Match("LoadWT", LoadWT)
  \/ TEndLoad \/ TDiff
  \/ (i < NEv /\ Ev.ev = "Interrupt" /\ Match("Interrupt", InterruptAt(Ev.at)))
  \/ Finish

\* the recorded initial snapshot is the initial state of the spec for the trace's plan
TInit ==
  /\ tr \in ToSet(Traces) /\ i = 0
  /\ InitOf(tr.plan)
  /\ head = tr.init.head /\ status = tr.init.status
  /\ branches = ToSet(tr.init.branches) /\ worktrees = ToSet(tr.init.worktrees)
  /\ tmpDirs = ToSet(tr.init.tmpDirs)

TSpec == TInit /\ [][TNext]_tvars

Accepted == i = NEv
\* evaluated on every reached state: progress report (the driver derives the verdict per trace), the
\* accepted counter, and - the property on the recorded execution - the clauses of C20 are checked by the
\* INVARIANT lines of the cfg exactly as in GitWorktree
Progress ==
  /\ PrintT(<<"CASE", ToJson([tid |-> T.tid, i |-> i, n |-> NEv, pc |-> pc])>>)
  /\ (Accepted => TLCSet(1, TLCGet(1) + 1))
ASSUME TLCSet(1, 0)
Post == PrintT(<<"NOTE", ToJson([why |-> "summary", accepted |-> TLCGet(1), total |-> Len(Traces)])>>)
=============================================================================
