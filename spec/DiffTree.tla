------------------------------ MODULE DiffTree ------------------------------
(***************************************************************************)
(* C11 - API diff: silent on compatible change, reports every public       *)
(* removal / re-kinding.                                                   *)
(*                                                                         *)
(* Shape P (two-version histories).  State = <<old, new, log>>:            *)
(*   * Init picks a base package (old = new): a top package `pkg` with one  *)
(*     defining module M (named `mod` or `_mod`) and a re-export site that *)
(*     imports names of M: pkg/__init__ (walked before M) or the public    *)
(*     sibling module pkg/zapi (walked after M); optional __all__ in M and *)
(*     in the site, an optional dangling re-export (`from extlib import    *)
(*     ext`), an optional cyclic one (site.cyc -> pkg.M.cyc -> site.cyc);  *)
(*     M defines class B {bm}, class K[(B)]                                *)
(*     {km, _kp}, function f, attribute x, private attribute _p;           *)
(*   * every action is one edit of the catalogue applied to `new`          *)
(*     (compatible: AddPublic, AddOptKw, AddReturn, AddBase; incompatible: *)
(*     Remove, ChangeKind, RemoveBase, ChangeValue - at public or private  *)
(*     locations), appended to `log`, at most MaxEdits of them;            *)
(*   * Report(old, new) is a transcription of _griffe.diff:                *)
(*     find_breaking_changes -> _member_incompatibilities ->               *)
(*     _type_based_yield -> _alias_/_class_/_function_/_attribute_         *)
(*     incompatibilities with the seen_paths guard, Alias.target           *)
(*     resolution (ok / AliasResolutionError / CyclicAliasError) and       *)
(*     mixins.is_public; an exception escaping the generator is the        *)
(*     outcome `aborted`;                                                  *)
(*   * PubPaths(v) is the declarative reference: the access paths (direct, *)
(*     re-export, inherited) whose every segment is public by Python's     *)
(*     conventions (__all__ if defined, else no underscore and not         *)
(*     imported; modules: no underscore).                                  *)
(* The clauses of the property are the invariants I_* at the bottom.  The  *)
(* report is stored in a variable by every action (TLC does not memoise).  *)
(* Every reached state is printed as a CASE; gverif/props/c11.py renders   *)
(* both versions to disk, loads them with the real loader and compares.    *)
(***************************************************************************)
EXTENDS Naturals, Sequences, FiniteSets, TLC, Json

CONSTANTS MaxEdits,      \* length bound of the edit script
          CatchCyclic,   \* BOOLEAN, extracted from the repo: _alias_incompatibilities also catches CyclicAliasError
          BaseRule,      \* "missing" | "shorter": the base-class test of _class_incompatibilities, probed by the driver:
                         \* "missing" = some old base is no longer listed (repo fix ec3336e);
                         \* "shorter" = the former `new.bases != old.bases and len(new) < len(old)` (regression domain)
          BaseFamily,    \* "all" | "small" | "swap": which base packages Init chooses from
          Emit           \* BOOLEAN

\* ---- the universe of definitions (ids) and their canonical paths ------------------------------------
DefIds == {"M", "B", "bm", "Bn", "K", "km", "kp", "Kn", "f", "x", "p", "n"}
ROOT == <<"pkg">>
CP(d) == CASE d = "M"  -> <<"pkg", "M">>
           [] d = "B"  -> <<"pkg", "M", "B">>
           [] d = "bm" -> <<"pkg", "M", "B", "bm">>
           [] d = "Bn" -> <<"pkg", "M", "B", "n">>
           [] d = "K"  -> <<"pkg", "M", "K">>
           [] d = "km" -> <<"pkg", "M", "K", "km">>
           [] d = "kp" -> <<"pkg", "M", "K", "_kp">>
           [] d = "Kn" -> <<"pkg", "M", "K", "n">>
           [] d = "f"  -> <<"pkg", "M", "f">>
           [] d = "x"  -> <<"pkg", "M", "x">>
           [] d = "p"  -> <<"pkg", "M", "_p">>
           [] OTHER    -> <<"pkg", "M", "n">>
NameOf(d) == CP(d)[Len(CP(d))]
ParentOf(d) == CASE d = "M" -> "root" [] d \in {"bm", "Bn"} -> "B" [] d \in {"km", "kp", "Kn"} -> "K" [] OTHER -> "M"
ChildrenSeq(c) == CASE c = "M" -> <<"B", "K", "f", "x", "p", "n">>     \* definition order in the source
                    [] c = "B" -> <<"bm", "Bn">>
                    [] c = "K" -> <<"km", "kp", "Kn">>
                    [] OTHER   -> <<>>
Descendants(d) == CASE d = "M" -> DefIds \ {"M"} [] d = "B" -> {"bm", "Bn"} [] d = "K" -> {"km", "kp", "Kn"} [] OTHER -> {}
ImportNames == <<"K", "f", "x">>       \* `from pkg.M import K, f, x` (those in v.imp), in this order

\* ---- state ------------------------------------------------------------------------------------------
VARIABLES mpriv,     \* the defining module is named `_mod` (TRUE) or `mod` (FALSE)
          site,      \* where the re-exports (imports + __all__) live: "root" = pkg/__init__.py (walked BEFORE M),
                     \* "sib" = the public sibling module pkg/zapi.py (walked AFTER M; pkg/__init__.py is then empty)
          old, new,  \* the two versions (records, see BasePackage)
          log,       \* the edit script: sequence of [op, id]
          report,    \* Impl: [aborted |-> exception name or "no", out |-> set of <<breakage kind, obj.path>>]
          pub,       \* Ref: PubPaths(old) - set of <<public access path, id of the definition it designates>>
          canon      \* Ref: CanonPaths(old) - the same for every access path below pkg.M, public or not
vars == <<mpriv, site, old, new, log, report, pub, canon>>

Underscore(nm) == nm \in {"_p", "_kp"} \/ (nm = "M" /\ mpriv)

\* ---- versions ---------------------------------------------------------------------------------------
Present(v, d) == v.kind[d] # "absent"
BasePackage(mallc, reexp, withRall, ext, cyc, mal, kbase) ==
  [kind |-> [d \in DefIds |-> CASE d = "M" -> "module" [] d \in {"B", "K"} -> "class" [] d \in {"bm", "f"} -> "function"
                                [] d \in {"km", "kp", "x", "p"} -> "attribute" [] OTHER -> "absent"],
   val |-> [d \in DefIds |-> IF d = "km" THEN "unset" ELSE "v1"],   \* value of attributes; "unset" = annotation only (`km: int`)
   kext |-> TRUE,                                  \* class K also derives from an external, unresolvable base (LookupError)
   opt |-> {},                                     \* functions that have the extra optional keyword parameter
   ret |-> {},                                     \* functions that have a return annotation (-> int)
   kbase |-> kbase,                                \* class K(B)
   imp |-> reexp,                                  \* names re-exported by pkg/__init__ from M
   ext |-> ext, cyc |-> cyc,                       \* dangling / cyclic re-export present
   vend |-> {},                                    \* names of the site whose (unresolvable) import was replaced by a local definition
   mal |-> mal,                                    \* plain import of the defining module: `import pkg.M as mal`
   hasRall |-> withRall,                           \* pkg/__init__ defines __all__ = re-exported names
   rall |-> IF withRall THEN reexp \cup (IF ext THEN {"ext"} ELSE {}) \cup (IF cyc THEN {"cyc"} ELSE {})
                            \cup (IF mal THEN {"mal"} ELSE {}) ELSE {},
   hasMall |-> mallc # "none",                     \* M defines __all__
   mall |-> CASE mallc = "full" -> {"B", "K", "f", "x"} [] mallc = "part" -> {"K", "f"} [] OTHER -> {}]   \* "empty": __all__ = []

\* ---- object handles (what the finder holds: an Object or an Alias) -----------------------------------
\*   def : the definition `id`       imp : re-export alias <site>.<id>       mcyc: alias pkg.M.cyc -> <site>.cyc
\*   inh : Alias(name, target = base member `id`, parent = class `cls`, inherited = True)
\*   root: the package                sib : the module pkg.zapi (exists when site = "sib")
H(t, id, cls) == [t |-> t, id |-> id, cls |-> cls]
RootH == H("root", "-", "-")
SibH == H("sib", "-", "-")
SitePath == IF site = "root" THEN ROOT ELSE <<"pkg", "zapi">>
DefH(d) == H("def", d, "-")
IsAlias(h) == h.t \in {"imp", "mcyc", "inh"}
PathOf(h) == CASE h.t = "root" -> ROOT [] h.t = "sib" -> <<"pkg", "zapi">> [] h.t = "def" -> CP(h.id)
               [] h.t \in {"imp", "loc"} -> Append(SitePath, h.id)
               [] h.t = "mcyc" -> <<"pkg", "M", "cyc">> [] OTHER -> Append(CP(h.cls), NameOf(h.id))
NameH(h) == PathOf(h)[Len(PathOf(h))]
KindH(v, h) == IF h.t \in {"root", "sib"} THEN "module" ELSE IF h.t = "loc" THEN "attribute" ELSE v.kind[h.id]        \* only used on non-alias handles

\* members in definition order (dict order of Object.members)
Imports(v) ==          \* the alias members created by the import statements of the re-export site, in source order
  [i \in 1..Len(SelectSeq(ImportNames, LAMBDA n : n \in v.imp)) |-> H("imp", SelectSeq(ImportNames, LAMBDA n : n \in v.imp)[i], "-")]
  \o (IF v.ext /\ "ext" \notin v.vend THEN <<H("imp", "ext", "-")>> ELSE <<>>)
  \o (IF v.cyc /\ "cyc" \notin v.vend THEN <<H("imp", "cyc", "-")>> ELSE <<>>)
  \o (IF v.mal THEN <<H("imp", "mal", "-")>> ELSE <<>>)
  \* "loc": a plain attribute `ext = 1` / `cyc = 1` defined in the site itself (after the imports and __all__)
  \o (IF "ext" \in v.vend THEN <<H("loc", "ext", "-")>> ELSE <<>>)
  \o (IF "cyc" \in v.vend THEN <<H("loc", "cyc", "-")>> ELSE <<>>)
OwnMembers(v, h) ==
  IF h.t = "root"                      \* submodules are attached after the visit of __init__, in sorted order
  THEN (IF site = "root" THEN Imports(v) ELSE <<>>)
       \o (IF Present(v, "M") THEN <<DefH("M")>> ELSE <<>>)
       \o (IF site = "sib" THEN <<SibH>> ELSE <<>>)
  ELSE IF h.t = "sib" THEN Imports(v)
  ELSE IF h.t # "def" THEN <<>>
  ELSE (IF h.id = "M" /\ v.cyc THEN <<H("mcyc", "cyc", "-")>> ELSE <<>>)
       \o LET kids == SelectSeq(ChildrenSeq(h.id), LAMBDA d : Present(v, d)) IN [i \in 1..Len(kids) |-> DefH(kids[i])]
\* Object.inherited_members: for base in reversed(mro): members not defined in the class itself, wrapped in aliases
Inherited(v, h) ==
  IF h.t = "def" /\ h.id = "K" /\ v.kind["K"] = "class" /\ v.kbase /\ v.kind["B"] = "class"
  THEN LET own == {NameH(OwnMembers(v, h)[i]) : i \in 1..Len(OwnMembers(v, h))}
           inh == SelectSeq(ChildrenSeq("B"), LAMBDA d : Present(v, d) /\ NameOf(d) \notin own)
       IN [i \in 1..Len(inh) |-> H("inh", inh[i], "K")]
  ELSE <<>>
AllMembers(v, h) == Inherited(v, h) \o OwnMembers(v, h)            \* {**inherited_members, **members}
NoH == H("none", "-", "-")
Lookup(v, h, nm) == LET ms == AllMembers(v, h)
                        hit == {i \in 1..Len(ms) : NameH(ms[i]) = nm}
                    IN IF hit = {} THEN NoH ELSE ms[CHOOSE i \in hit : TRUE]

\* mixins.is_public, statement by statement (public attribute is never set here)
ParentIsModule(h) == h.t \in {"imp", "loc", "mcyc", "sib"} \/ (h.t = "def" /\ ParentOf(h.id) \in {"root", "M"})
InSite(h) == h.t \in {"imp", "loc"}                                                  \* member of the module holding the re-exports
InPkg(h) == h.t = "sib" \/ (h.t = "def" /\ h.id = "M")                     \* member of pkg/__init__ itself
ParentHasAll(v, h) == IF InSite(h) THEN v.hasRall                          \* parent.exports is not None (fix cee63a5)
                      ELSE IF InPkg(h) THEN site = "root" /\ v.hasRall
                      ELSE v.hasMall
ParentExports(v, h) == IF InSite(h) \/ InPkg(h) THEN v.rall ELSE v.mall
ImportedH(v, h) == h.t \in {"imp", "mcyc"}                                  \* name in parent.imports
IsPublicImpl(v, h) ==
  IF ~IsAlias(h) /\ KindH(v, h) = "module" /\ ~Underscore(NameH(h)) THEN TRUE
  ELSE IF ParentIsModule(h) /\ ParentHasAll(v, h) THEN NameH(h) \in ParentExports(v, h)
  ELSE IF Underscore(NameH(h)) THEN FALSE
  ELSE IF ImportedH(v, h) THEN FALSE
  ELSE TRUE

\* Alias.target: resolve the whole chain or raise
Resolve(v, h) ==
  CASE h.t = "inh" -> [st |-> "ok", h |-> DefH(h.id)]                      \* built with its target object
    [] h.t = "imp" /\ h.id \in {"K", "f", "x"} ->
          IF Present(v, "M") /\ Present(v, h.id) THEN [st |-> "ok", h |-> DefH(h.id)]
          ELSE [st |-> "AliasResolutionError", h |-> NoH]
    [] h.t = "imp" /\ h.id = "mal" ->                                     \* import pkg.M as mal: the module itself
          IF Present(v, "M") THEN [st |-> "ok", h |-> DefH("M")] ELSE [st |-> "AliasResolutionError", h |-> NoH]
    [] h.t = "imp" /\ h.id = "ext" -> [st |-> "AliasResolutionError", h |-> NoH]    \* extlib is not loaded
    [] OTHER -> [st |-> "CyclicAliasError", h |-> NoH]                     \* pkg.cyc -> pkg.M.cyc -> pkg.cyc

\* ---- the finder -------------------------------------------------------------------------------------
\* accumulator threaded through the generator: breakages yielded so far, seen_paths, escaped exception
Acc0 == [out |-> {}, seen |-> {}, aborted |-> "no"]
Yield(acc, kind, h) == [acc EXCEPT !.out = @ \cup {<<kind, PathOf(h)>>}]

RECURSIVE TypeBasedYield(_, _, _, _, _), MemberLoop(_, _, _, _, _, _)

\* _member_incompatibilities(old_obj, new_obj, seen_paths)
MemberIncompat(vo, vn, co, cn, acc) == MemberLoop(vo, vn, AllMembers(vo, co), 1, cn, acc)

MemberLoop(vo, vn, ms, i, cn, acc) ==
  IF i > Len(ms) \/ acc.aborted # "no" THEN acc
  ELSE LET m == ms[i]
           nm == Lookup(vn, cn, NameH(m))                                  \* new_obj.all_members[name]
           acc2 == IF ~IsPublicImpl(vo, m) THEN acc                        \* skip non-public object
                   ELSE IF nm = NoH
                        THEN (IF (~IsAlias(m) /\ KindH(vo, m) = "module") \/ IsPublicImpl(vo, m)
                              THEN Yield(acc, "OBJECT_REMOVED", m) ELSE acc)
                        ELSE TypeBasedYield(vo, vn, m, nm, acc)
       IN MemberLoop(vo, vn, ms, i + 1, cn, acc2)

\* _class_incompatibilities: bases first, then members
ClassIncompat(vo, vn, ho, hn, acc) ==
  \* Class.bases (the expressions as written): B resolves in the package, LookupError does not
  LET Bases(v, h) == IF h.id # "K" THEN <<>> ELSE (IF v.kbase THEN <<"B">> ELSE <<>>) \o (IF v.kext THEN <<"LookupError">> ELSE <<>>)
      bo == Bases(vo, ho)
      bn == Bases(vn, hn)
      removed == IF BaseRule = "missing"
                 THEN \E k \in 1..Len(bo) : \A j \in 1..Len(bn) : bn[j] # bo[k]   \* any(base not in new.bases for base in old.bases)
                 ELSE bn # bo /\ Len(bn) < Len(bo)
      acc1 == IF removed THEN Yield(acc, "CLASS_REMOVED_BASE", hn) ELSE acc
  IN MemberIncompat(vo, vn, ho, hn, acc1)
\* _function_incompatibilities restricted to the one parameter the catalogue touches (`*, opt=None`):
\* removed unless swallowed / added as required never fire for an added optional keyword-only parameter
\* and _returns_are_compatible: old None -> compatible; new None -> incompatible; otherwise compatible
\* The functions f and bm are `def f(a, *, k=1)`; AddOptKw inserts the optional keyword-only parameter IN FRONT of
\* the existing one: `def f(a, *, opt=None, k=1)` - k's index shifts, but the moved rule only looks at parameters
\* whose kind is positional on both sides.
FSig(v, d) == <<[n |-> "a", kind |-> "pk"]>> \o (IF d \in v.opt THEN <<[n |-> "opt", kind |-> "ko"]>> ELSE <<>>) \o <<[n |-> "k", kind |-> "ko"]>>
FunctionIncompat(vo, vn, ho, hn, acc) ==
  LET so == FSig(vo, ho.id)
      sn == FSig(vn, hn.id)
      moved == \E i \in 1..Len(so), j \in 1..Len(sn) :
                  so[i].n = sn[j].n /\ so[i].kind \in {"po", "pk"} /\ sn[j].kind \in {"po", "pk"} /\ i # j
      acc0 == IF moved THEN Yield(acc, "PARAMETER_MOVED", hn) ELSE acc
      acc1 == IF ho.id \in vo.opt /\ hn.id \notin vn.opt THEN Yield(acc0, "PARAMETER_REMOVED", hn) ELSE acc0
      returnsCompatible == IF ho.id \notin vo.ret THEN TRUE ELSE IF hn.id \notin vn.ret THEN FALSE ELSE TRUE
  IN IF ~returnsCompatible THEN Yield(acc1, "RETURN_CHANGED_TYPE", hn) ELSE acc1
\* _attribute_incompatibilities
AttributeIncompat(vo, vn, ho, hn, acc) ==
  IF ho.t = "loc" \/ hn.t = "loc" THEN acc            \* vendored names keep their value `1` (never both sides here)
  ELSE IF vo.val[ho.id] # vn.val[hn.id] THEN Yield(acc, "ATTRIBUTE_CHANGED_VALUE", hn) ELSE acc

\* _type_based_yield (with _alias_incompatibilities inlined in its first branch)
TypeBasedYield(vo, vn, ho, hn, acc) ==
  IF PathOf(ho) \in acc.seen THEN acc
  ELSE LET acc1 == [acc EXCEPT !.seen = @ \cup {PathOf(ho)}]
       IN IF IsAlias(ho) \/ IsAlias(hn)
          THEN \* old_member = old_obj.target if old_obj.is_alias else old_obj   (evaluated first)
               LET ro == IF IsAlias(ho) THEN Resolve(vo, ho) ELSE [st |-> "ok", h |-> ho]
                   rn == IF IsAlias(hn) THEN Resolve(vn, hn) ELSE [st |-> "ok", h |-> hn]
                   exc == IF ro.st # "ok" THEN ro.st ELSE rn.st            \* the first exception raised
               IN IF exc = "ok" THEN TypeBasedYield(vo, vn, ro.h, rn.h, acc1)
                  ELSE IF exc = "AliasResolutionError" \/ CatchCyclic THEN acc1     \* except ...: return
                  ELSE [acc1 EXCEPT !.aborted = exc]                                \* escapes the generator
          ELSE IF KindH(vn, hn) # KindH(vo, ho) THEN Yield(acc1, "OBJECT_CHANGED_KIND", hn)
          ELSE IF KindH(vo, ho) = "module" THEN MemberIncompat(vo, vn, ho, hn, acc1)
          ELSE IF KindH(vo, ho) = "class" THEN ClassIncompat(vo, vn, ho, hn, acc1)
          ELSE IF KindH(vo, ho) = "function" THEN FunctionIncompat(vo, vn, ho, hn, acc1)
          ELSE AttributeIncompat(vo, vn, ho, hn, acc1)

\* find_breaking_changes(old_package, new_package), consumed by list(...)
Report(vo, vn) ==
  LET acc == MemberIncompat(vo, vn, RootH, RootH, Acc0)
  IN [aborted |-> acc.aborted, out |-> IF acc.aborted = "no" THEN acc.out ELSE {}]
\* cli.check: `if breakages: return 1; return 0` (an escaped exception ends the process with a traceback)
ExitCode(r) == IF r.aborted # "no" THEN "crash" ELSE IF r.out # {} THEN "1" ELSE "0"

\* ---- reference: public access paths ------------------------------------------------------------------
\* a module-level name is public when listed in __all__ if the module defines it, else when it has no
\* underscore and is not imported; a submodule / class member when it has no underscore
RefPublicIn(v, c, nm, imported) ==
  IF c = "site" THEN (IF v.hasRall THEN nm \in v.rall ELSE ~Underscore(nm) /\ ~imported)
  ELSE IF c = "root" THEN ~Underscore(nm)                    \* submodules M / zapi: not subject to __all__
  ELSE IF c = "M" THEN (IF v.hasMall THEN nm \in v.mall ELSE ~Underscore(nm) /\ ~imported)
  ELSE ~Underscore(nm)
\* access paths below the object `d` reached through the access path q (pubOnly: public segments only)
ObjPaths(v, q, d, pubOnly) ==
  {<<q, d>>}
  \cup (IF v.kind[d] # "class" THEN {}
        ELSE {<<Append(q, NameOf(m)), m>> : m \in {k \in Descendants(d) : Present(v, k) /\ (pubOnly => RefPublicIn(v, d, NameOf(k), FALSE))}}
             \cup (IF d = "K" /\ v.kbase /\ v.kind["B"] = "class"                      \* inherited, not overridden
                   THEN {<<Append(q, NameOf(m)), m>> : m \in {k \in Descendants("B") : /\ Present(v, k)
                                                                                       /\ (pubOnly => RefPublicIn(v, "B", NameOf(k), FALSE))
                                                                                       /\ \A o \in Descendants("K") : Present(v, o) => NameOf(o) # NameOf(k)}}
                   ELSE {}))
ModuleLevel == {"B", "K", "f", "x", "p", "n"}
PubPaths(v) ==
  (IF Present(v, "M") /\ RefPublicIn(v, "root", "M", FALSE)
   THEN {<<CP("M"), "M">>} \cup UNION {ObjPaths(v, CP(d), d, TRUE) : d \in {k \in ModuleLevel : Present(v, k) /\ RefPublicIn(v, "M", NameOf(k), FALSE)}}
   ELSE {})
  \cup UNION {ObjPaths(v, Append(SitePath, nm), nm, TRUE) : nm \in {k \in v.imp : Present(v, k) /\ RefPublicIn(v, "site", k, TRUE)}}
  \* the module alias `mal` (when public): the alias itself, the module, and what is public inside the module
  \cup (IF v.mal /\ Present(v, "M") /\ RefPublicIn(v, "site", "mal", TRUE)
        THEN LET q == Append(SitePath, "mal")
             IN {<<q, "mal">>, <<q, "M">>}
                \cup UNION {ObjPaths(v, Append(q, NameOf(d)), d, TRUE) : d \in {k \in ModuleLevel : Present(v, k) /\ RefPublicIn(v, "M", NameOf(k), FALSE)}}
        ELSE {})
\* every access path below the defining module itself (pkg.M....), public or not
CanonPaths(v) ==
  IF Present(v, "M") THEN {<<CP("M"), "M">>} \cup UNION {ObjPaths(v, CP(d), d, FALSE) : d \in {k \in ModuleLevel : Present(v, k)}} ELSE {}
PublicPathsOf(d) == {z[1] : z \in {y \in pub : y[2] = d}}
PubPathSet == {z[1] : z \in pub}
CanonPathsOf(d) == {z[1] : z \in {y \in canon : y[2] = d}}
\* paths at which a breakage may be reported at all: a public access path, or a path below the defining
\* module (pkg.M....) of a definition that has at least one public access path; never the path of a
\* re-export that is not public, never anything that designates a definition without public path
OkPaths == PubPathSet \cup {z[1] : z \in {y \in canon : PublicPathsOf(y[2]) # {}}}

\* ---- the edit catalogue ------------------------------------------------------------------------------
Incompatible == {"Remove", "ChangeKind", "RemoveBase", "RemoveExtBase", "ChangeValue"}
KindFor(op) == CASE op = "Remove" -> "OBJECT_REMOVED" [] op = "ChangeKind" -> "OBJECT_CHANGED_KIND"
                 [] op \in {"RemoveBase", "RemoveExtBase"} -> "CLASS_REMOVED_BASE" [] OTHER -> "ATTRIBUTE_CHANGED_VALUE"
Logged(op, d, v2) == /\ Len(log) < MaxEdits
                     /\ new' = v2 /\ log' = Append(log, [op |-> op, id |-> d])
                     /\ report' = Report(old, v2)
                     /\ UNCHANGED <<mpriv, site, old, pub, canon>>
Drop(v, ds) == [v EXCEPT !.kind = [d \in DefIds |-> IF d \in ds THEN "absent" ELSE @[d]],
                         !.imp = @ \ ds, !.rall = @ \ ds, !.mall = @ \ ds, !.opt = @ \ ds, !.ret = @ \ ds]
\* incompatible edits (the objects touched exist in both versions, each is touched in one way only)
Remove(d) ==
  /\ d \in {"M", "B", "K", "f", "x", "p", "bm", "km", "kp"}
  /\ Present(old, d) /\ Present(new, d)
  /\ (d = "M" => new.imp = {} /\ ~new.cyc /\ ~new.mal)                        \* nothing imports from it any more
  /\ (d = "B" => ~new.kbase \/ new.kind["K"] # "class")             \* no class still derives from it
  /\ LET v2 == Drop(new, {d} \cup Descendants(d)) IN Logged("Remove", d, v2)
\* "remove the import line" `import pkg.M as mal` (and its __all__ entry): incompatible where the name was public
RemoveImport ==
  /\ old.mal /\ new.mal
  /\ Logged("Remove", "mal", [new EXCEPT !.mal = FALSE, !.rall = @ \ {"mal"}])
NewKind(d) == CASE d \in {"K", "x", "km"} -> "function" [] OTHER -> "attribute"
ChangeKind(d) ==
  /\ d \in {"K", "f", "x", "bm", "km"}
  /\ Present(new, d) /\ new.kind[d] = old.kind[d]
  /\ LET v1 == Drop(new, Descendants(d))
         v2 == [v1 EXCEPT !.kind[d] = NewKind(d), !.opt = @ \ {d}, !.ret = @ \ {d}]
     IN Logged("ChangeKind", d, v2)
ChangeValue(d) ==
  /\ d \in {"x", "p", "km", "kp"}
  /\ new.kind[d] = "attribute" /\ new.val[d] = old.val[d]
  /\ Logged("ChangeValue", d, [new EXCEPT !.val[d] = "v2"])
RemoveBase ==
  /\ new.kind["K"] = "class" /\ old.kbase /\ new.kbase
  /\ Logged("RemoveBase", "K", [new EXCEPT !.kbase = FALSE])
RemoveExtBase ==                                   \* class K(B, LookupError) -> class K(B)
  /\ new.kind["K"] = "class" /\ old.kext /\ new.kext
  /\ Logged("RemoveExtBase", "K", [new EXCEPT !.kext = FALSE])
\* compatible edits
AddBase ==
  /\ new.kind["K"] = "class" /\ new.kind["B"] = "class" /\ ~old.kbase /\ ~new.kbase
  /\ Logged("AddBase", "K", [new EXCEPT !.kbase = TRUE])
AddPublic(d) ==
  /\ d \in {"n", "Bn", "Kn"}
  /\ ~Present(new, d) /\ new.kind[ParentOf(d)] \in {"module", "class"}
  /\ Logged("AddPublic", d, [new EXCEPT !.kind[d] = "function",
                                         !.mall = IF d = "n" /\ new.hasMall THEN @ \cup {"n"} ELSE @])
AddOptKw(d) ==
  /\ d \in {"f", "bm"}
  /\ new.kind[d] = "function" /\ d \notin new.opt
  /\ Logged("AddOptKw", d, [new EXCEPT !.opt = @ \cup {d}])
\* the unresolvable / cyclic re-export `from extlib import ext` (`from pkg.M import cyc`) is replaced by a plain
\* definition of the same name in the site ("the helper got vendored"): the public name stays
Vendor(nm) ==
  /\ nm \in {"ext", "cyc"}
  /\ (IF nm = "ext" THEN old.ext /\ new.ext ELSE old.cyc /\ new.cyc) /\ nm \notin new.vend
  /\ Logged("Vendor", nm, [new EXCEPT !.vend = @ \cup {nm}])
AddReturn(d) ==                                   \* `def f(a): ...` -> `def f(a) -> int: ...`
  /\ d \in {"f", "bm"}
  /\ new.kind[d] = "function" /\ old.kind[d] = "function" /\ d \notin new.ret
  /\ Logged("AddReturn", d, [new EXCEPT !.ret = @ \cup {d}])

\* ---- behaviours --------------------------------------------------------------------------------------
ReexpChoices == IF BaseFamily = "small" THEN {{"K", "f", "x"}} ELSE IF BaseFamily = "swap" THEN {{}} ELSE {{}, {"K", "x"}, {"K", "f", "x"}}
MallChoices == IF BaseFamily = "small" THEN {"part"} ELSE IF BaseFamily = "swap" THEN {"none"} ELSE {"none", "full", "part", "empty"}
Init ==
  /\ mpriv \in BOOLEAN
  /\ site \in {"root", "sib"}
  /\ \E mallc \in MallChoices, reexp \in ReexpChoices, withRall \in BOOLEAN, extras \in BOOLEAN, kbase \in BOOLEAN :
        \* the three extra imports (dangling, cyclic, `import pkg.M as mal`) come together or not at all
        /\ (BaseFamily = "small" => extras /\ kbase)
        \* "swap": the one plain package `class K(LookupError)` in pkg/mod.py, for scripts that add one base and drop another
        /\ (BaseFamily = "swap" => ~mpriv /\ site = "root" /\ ~withRall /\ ~extras /\ ~kbase)
        /\ old = BasePackage(mallc, reexp, withRall, extras, extras, extras, kbase)
  /\ new = old /\ log = <<>>
  /\ report = Report(old, old)
  /\ pub = PubPaths(old)
  /\ canon = CanonPaths(old)

Next == \/ \E d \in DefIds : Remove(d) \/ ChangeKind(d) \/ ChangeValue(d) \/ AddPublic(d) \/ AddOptKw(d) \/ AddReturn(d)
        \/ RemoveBase \/ RemoveExtBase \/ AddBase \/ RemoveImport \/ \E nm \in {"ext", "cyc"} : Vendor(nm)
Spec == Init /\ [][Next]_vars

\* ---- the property ------------------------------------------------------------------------------------
IsPrefix(r, q) == Len(r) <= Len(q) /\ SubSeq(q, 1, Len(r)) = r
AllPathsOf(d) == PublicPathsOf(d) \cup CanonPathsOf(d)
\* an access path of the object of edit i is hidden when another edit of the script removes or re-kinds
\* the object itself or a container on that path: only the hiding edit has to be reported there
Hidden(i, q) == \E j \in 1..Len(log) :
                   /\ j # i
                   /\ \/ log[j].op \in {"Remove", "ChangeKind"} /\ \E r \in AllPathsOf(log[j].id) : IsPrefix(r, q)
                      \* ... or drops the base class through which the path reaches an inherited member
                      \/ log[j].op = "RemoveBase" /\ log[i].id \in Descendants("B")
                                                  /\ \E r \in AllPathsOf("K") : IsPrefix(r, q)
LivePublic(i) == {q \in PublicPathsOf(log[i].id) : ~Hidden(i, q)}
LiveAny(i) == {q \in AllPathsOf(log[i].id) : ~Hidden(i, q)}
Masked(i) == LivePublic(i) = {}
PublicEdit(i) == log[i].op \in Incompatible /\ PublicPathsOf(log[i].id) # {}
\* one base dropped and another one added in the same script: the lists differ but the new one is not shorter -
\* the former test `len(new.bases) < len(old.bases)` missed it (fixed finding C11-base-swapped-unreported; with
\* BaseRule = "shorter" TLC must still violate clause (ii) here, see DiffTree_defect_baseswap.cfg)
BaseSwap(i) == log[i].op \in {"RemoveBase", "RemoveExtBase"} /\ \E j \in 1..Len(log) : log[j].op = "AddBase"
ReportedAt(i, paths) == \E b \in report.out : b[1] = KindFor(log[i].op) /\ b[2] \in paths
CanonPublic(d) == IF d = "mal" THEN PublicPathsOf(d) # {} ELSE CP(d) \in PublicPathsOf(d)

\* (i) identical copy / only compatible edits / only edits of private objects  =>  nothing reported
I_CompatSilent == (report.aborted = "no" /\ \A i \in 1..Len(log) : ~PublicEdit(i)) => report.out = {}
\* (ii) an incompatible edit of a publicly reachable object is reported, with the matching kind,
\*      against one of its public paths - where its canonical path is public ...
I_ReportedAtPublicPath_Clean ==
  report.aborted = "no" => \A i \in 1..Len(log) :
     (PublicEdit(i) /\ ~Masked(i) /\ CanonPublic(log[i].id)) => ReportedAt(i, LivePublic(i))
\*      ... and at least against some access path of the object (public, or below pkg.M) everywhere
I_ReportedSomewhere ==
  report.aborted = "no" => \A i \in 1..Len(log) :
     (PublicEdit(i) /\ ~Masked(i)) => ReportedAt(i, LiveAny(i))
\*      the strict clause everywhere (DiffTree_defect_path.cfg: violated by the unchanged code)
I_ReportedAtPublicPath ==
  report.aborted = "no" => \A i \in 1..Len(log) :
     (PublicEdit(i) /\ ~Masked(i)) => ReportedAt(i, LivePublic(i))
\* (iii) nothing is reported on private or imported-but-not-exported objects
I_PrivateSilent == \A b \in report.out : b[2] \in OkPaths
\* (iv) unresolvable / cyclic re-exports are skipped, the comparison is not aborted - outside the known
\*      defect domain (a cyclic re-export listed in __all__ while only AliasResolutionError is caught) ...
I_NoAbort_Clean == (CatchCyclic \/ ~(old.cyc /\ old.hasRall)) => report.aborted = "no"
\*      ... and everywhere (DiffTree_defect_abort.cfg)
I_NoAbort == report.aborted = "no"
\* (v) the command-line check exits non-zero exactly when something is reported
I_ExitCode == report.aborted = "no" => ((ExitCode(report) = "1") <=> (report.out # {}))

DepthBound == Len(log) <= MaxEdits
\* ---- enumeration --------------------------------------------------------------------------------------
Obligations ==
  [i \in 1..Len(log) |->
     [op |-> log[i].op, id |-> log[i].id, public |-> PublicEdit(i), masked |-> Masked(i),
      swap |-> BaseSwap(i), kind |-> KindFor(log[i].op), paths |-> LivePublic(i), lenient |-> LiveAny(i)]]
EmitCase ==
  Emit => PrintT(<<"CASE", ToJson([mpriv |-> mpriv, site |-> site, old |-> old, new |-> new, log |-> log,
                                   aborted |-> report.aborted, out |-> report.out, exit |-> ExitCode(report),
                                   oblig |-> Obligations, okpaths |-> OkPaths,
                                   allcompat |-> (\A i \in 1..Len(log) : ~PublicEdit(i))])>>)
=============================================================================
