---------------------------- MODULE LoadProtocol ----------------------------
(***************************************************************************)
(* C15 - static loading never executes analysed code; interpreter state    *)
(* (sys.path) is restored whatever the outcome of a load.                  *)
(*                                                                         *)
(* Shape P with faults.  One behaviour = one call of                       *)
(*    griffe.load("p", search_paths=[sp], allow_inspection, force_         *)
(*                inspection, find_stubs_package, resolve_aliases,         *)
(*                resolve_external)                                        *)
(* on a package tree described by the case record `cfg` (chosen by Init):  *)
(* loader options, a module table file[m], a fault plan fault[m], an       *)
(* optional stubs package and an optional external package reachable by    *)
(* alias resolution.  Every action is one observable step of the code path *)
(* (names in brackets = where it lives):                                   *)
(*    LoadExtensions  [GriffeLoader.__init__ -> load_extensions ->         *)
(*                     dynamic_import(path, None) -> sys_path() no-op]     *)
(*    LoadMain / ResolveExternal   [GriffeLoader.load, re-entered by       *)
(*                     expand_wildcards / resolve_module_aliases]          *)
(*    FindSpec        [ModuleFinder.find_spec + the ModuleNotFoundError    *)
(*                     handler of load()]                                  *)
(*    ChooseAgent     [_load_module_path: the agent ladder]                *)
(*    Visit           [_visit_module: no execution]                        *)
(*    Submodule / CreateNsParent / SkipSubmodule   [_load_submodule]       *)
(*    DynImport / EnterSysPath / TryImport / Import / ImportOk /           *)
(*    ImportFail / ExitSysPath / DynImportOk / DynImportFail               *)
(*                    [importer.dynamic_import, importer.sys_path, and     *)
(*                     CPython's import of a dotted name: parents first]   *)
(*    InspectTop / Inspected / InspectFail   [_inspect_module]             *)
(*    WrapError       [_load_module: ImportError -> LoadingError]          *)
(*    LoadReturn / LoadRaise / Return / Raise                              *)
(* The same actions are re-used by Trace_LoadProtocol.tla to validate      *)
(* event traces recorded from the real code (every action publishes the    *)
(* event it stands for in `lastev`).                                       *)
(*                                                                         *)
(* CPython's side (what `import x.y.z` does with sys.modules, namespace    *)
(* directories, failing module bodies) is transcribed in PyKind / Settle / *)
(* Import / ImportFail.                                                    *)
(*                                                                         *)
(* cfg.bug selects a seeded defect of the *model* (the mutants of the      *)
(* self-test, transcribed; constant Bugs = the defects tried, {"none"} in  *)
(* every verifying run): with LoadProtocol_bugs.cfg TLC must report every  *)
(* Catch... invariant violated, which shows that the clauses are not       *)
(* vacuous.  bug = "none" is the code as it is.                            *)
(***************************************************************************)
EXTENDS Naturals, Sequences, FiniteSets, TLC, Json

CONSTANTS
  AllowForce,    \* subset of {"--","a-","-f","af"}: allow_inspection, force_inspection  (TLC cfg files have no tuples)
  Resolves,      \* subset of {"off","true","false","none"}: resolve_aliases=False, or True with resolve_external
                 \* True / False / None;  "off+true", "off+false": resolve_aliases=False with the (unread) option set
  StubModes,     \* subset of {"none","inpkg","ext","find","find+ext"}: find_stubs_package and where the stubs are
  Layouts,       \* subset of {"flat","chain"}: p.a and p.b siblings / p.a a sub-package containing p.a.b
  Entries,       \* subset of {"load", "load_git", "attrs"}: the caller of the protocol; load_git checks the package out of a
                 \* git repository into a temporary worktree and forwards its options to load(); attrs = a GriffeLoader built
                 \* with the default options (inspection allowed) whose public attributes allow_inspection / force_inspection
                 \* are then assigned the case's values before loader.load() / loader.resolve_aliases() are called
  OnPaths,       \* subset of BOOLEAN: the search directory is already an entry of sys.path (same string) when the call is made
  Tops,          \* kinds of the top-level module p: py pyi so xc ns sofile zip missing
                 \*   zip = a source package inside a zip archive on the search path: invisible to the finder, importable
  KidsA, KidsB,  \* kinds of the sub-modules a, b: py pyi so xc missing both (both = x.py with its stub file x.pyi next to it)
                 \*   so = compiled, importable here (.so, tagged .so, .abi3.so, sourceless .pyc)
                 \*   xc = compiled for the finder, not importable by this CPython (.pyd, tagged .pyd, .pyo)
  Submods,       \* subset of BOOLEAN: the `submodules` argument of load()
  ObjSpecs,      \* how the package is named in the call: "name" ("p", try_relative_path=False), "relpath" ("p" with
                 \* try_relative_path=True and the search directory as cwd), "abspath" (a pathlib.Path to the package directory),
                 \* "dotted" (the path of an object inside the package: "p.X")
  Walks,         \* what enumerating the members of an imported module does (PEP 562: module-level __getattr__ + __dir__ expose
                 \* one lazy attribute): "none" (no lazy attribute) | "ok" (resolves) | "dep" (its import needs a missing
                 \* dependency: ModuleNotFoundError during the member walk) | "exit" (raises SystemExit during the walk)
  PathMuts,      \* what every executable module body does to sys.path before anything can fail:
                 \*   "none" | "inplace" (insert/append on the list it sees) | "rebind" (sys.path = [vendor, *sys.path])
  TopFaults, KidFaults, ExtFaults,   \* fault kinds tried on executable modules (always contain "none")
  ExtStyles,     \* how p refers to the external package: "none", "name" (from q import X), "star" (from q import *)
  ExtPrivates,   \* subset of BOOLEAN: the external package is the private sibling _p
  ExtKinds,      \* py (q.py), sofile (compiled single-file module), missing
  Bugs           \* subset of {"none", "allowFirst", "noReraise", "noFinally", "stubsDynamic", "externalInspect",
                 \*            "pydInspected", "guardedRestore", "probeOnMiss", "gitDropsAllow",
                 \*            "cachedFlag", "skipSwapOnPath", "walkNoFinally"}

VARIABLES
  cfg,          \* the case (constant during the behaviour)
  pc,           \* name of the next step
  lstack,       \* stack of active GriffeLoader.load calls: [pkg, ctx, res, stubs, viastubs]
  cur, role,    \* module handled by the agent ladder and its role: top / sub / stub / dyntop
  dyn,          \* the active dynamic_import call
  exc,          \* exception class in flight
  sysPath,      \* "orig" (the list object sys.path was bound to at the call), "search" (the replacement list
                \* installed by sys_path) or "alien" (a list made by the analysed code: sys.path = [...])
  dirty,        \* the lists whose content was changed in place by analysed code
  savedPath,    \* stack of saved bindings (old_path of every active sys_path context manager)
  sysModules,   \* modules of the universe present in sys.modules (delta with respect to the start)
  executed,     \* modules whose body started executing at least once
  agent,        \* agent chosen for each module: none / create / visit / inspect / refuse
  members,      \* sub-modules attached to the tree
  loaded,       \* packages in the modules collection
  todo,         \* sub-modules still to be offered by the finder
  offered, skipped, nsparents, failures,
  wt,           \* load_git: the temporary worktree: none / present / removed
  outcome,      \* "none" until the call ends: Return / ModuleNotFoundError / ImportError / LoadingError
  lastev        \* the event published by the last action (what the taps record)

ctl      == <<pc, lstack, cur, role, dyn, exc>>
pathvars == <<sysPath, savedPath, dirty>>
impvars  == <<sysModules, executed>>
treevars == <<agent, members, loaded, todo, offered, skipped, nsparents, failures>>
vars     == <<cfg, ctl, pathvars, impvars, treevars, wt, outcome, lastev>>

None == "none"
Mods == {"p", "a", "b", "q", "s", "as", "bs"}   \* s = the stubs of p (in-package __init__.pyi or the p-stubs package);
                                                \* as / bs = the stub file next to a.py / b.py (kind "both")

\* ---- the case ------------------------------------------------------------------------------------
Static == ~cfg.allow /\ ~cfg.force               \* what the caller asked for: the antecedent of the property
Bug == cfg.bug
\* what the loader object is configured with (load_git forwards the caller's options)
LoaderAllow == IF Bug = "gitDropsAllow" /\ cfg.entry = "load_git" THEN TRUE ELSE cfg.allow
LoaderStatic == ~LoaderAllow /\ ~cfg.force
\* what the "not found on disk" branch of load() consults: the attributes as they are at the time of the call
MissStatic == IF Bug = "cachedFlag" /\ cfg.entry = "attrs" THEN FALSE      \* a flag computed in __init__ (defaults: allowed)
              ELSE LoaderStatic
FileOf(m) ==
  CASE m \in {"p", "a", "b"} -> (IF cfg.file[m] = "both" THEN "py" ELSE cfg.file[m])
    [] m = "q" -> IF cfg.extstyle = None THEN "missing" ELSE cfg.extkind
    [] OTHER -> "pyi"
Compiled(m) == FileOf(m) \in {"so", "sofile", "xc"}
Executable(m) == FileOf(m) \in {"py", "so", "sofile", "zip"}
FaultOf(m) == IF m \in {"p", "a", "b", "q"} THEN cfg.fault[m] ELSE None
Kids == {m \in {"a", "b"} : cfg.file[m] # "missing"}           \* files yielded by finder.submodules(p)
          \cup (IF cfg.file.a = "both" THEN {"as"} ELSE {}) \cup (IF cfg.file.b = "both" THEN {"bs"} ELSE {})
Depth(m) == IF m \in {"b", "bs"} /\ cfg.layout = "chain" THEN 2 ELSE 1

\* ---- CPython: what the import system sees ----------------------------------------------------------
PyKind(m) ==     \* exec: a file whose code runs on import; ns: a directory without such a file; absent
  CASE m = "p" -> IF cfg.file.p \in {"py", "so", "sofile", "zip"} THEN "exec"
                  ELSE IF cfg.file.p \in {"pyi", "ns", "xc"} THEN "ns" ELSE "absent"
    [] m = "a" -> IF FileOf("a") \in {"py", "so"} THEN "exec"
                  ELSE IF cfg.layout = "chain" /\ (cfg.file.a \in {"pyi", "xc"} \/ cfg.file.b # "missing") THEN "ns" ELSE "absent"
    [] m = "b" -> IF FileOf("b") \in {"py", "so"} THEN "exec" ELSE "absent"
    [] m = "q" -> IF Executable("q") THEN "exec" ELSE "absent"
    [] OTHER -> "absent"
PyChain(m) ==    \* `import x.y.z` imports x, x.y, x.y.z in that order
  CASE m = "p" -> <<"p">>
    [] m = "a" -> <<"p", "a">>
    [] m = "b" -> IF cfg.layout = "chain" THEN <<"p", "a", "b">> ELSE <<"p", "b">>
    [] OTHER -> <<m>>
PyParent(m) == CASE m = "a" -> "p" [] m = "b" -> (IF cfg.layout = "chain" THEN "a" ELSE "p") [] OTHER -> None
PyTarget(m) == CASE m = "s" -> "p" [] m = "as" -> "a" [] m = "bs" -> "b" [] OTHER -> m    \* stubs are inspected by importing the module itself

\* walk the chain up to the first module whose body must run: modules already in sys.modules are
\* skipped, namespace directories are imported without running anything, an absent one fails
RECURSIVE Settle(_, _)
Settle(qq, sm) ==
  IF qq = <<>> THEN [q |-> <<>>, sm |-> sm, failed |-> FALSE]
  ELSE LET x == Head(qq) IN
       IF x \in sm THEN Settle(Tail(qq), sm)
       ELSE IF PyKind(x) = "ns" THEN Settle(Tail(qq), sm \cup {x})
       ELSE IF PyKind(x) = "absent" THEN [q |-> <<>>, sm |-> sm, failed |-> TRUE]
       ELSE [q |-> qq, sm |-> sm, failed |-> FALSE]

\* ---- Griffe: the finder -------------------------------------------------------------------------
NotFound == [res |-> "notfound", stubs |-> FALSE, viastubs |-> FALSE]
FindRes(pkg) ==
  IF pkg = "q"
  THEN IF FileOf("q") = "py" THEN [res |-> "package", stubs |-> FALSE, viastubs |-> FALSE] ELSE NotFound
  ELSE LET base == IF cfg.file.p \in {"py", "pyi"} THEN "package"
                   ELSE IF cfg.file.p \in {"so", "xc", "ns"} THEN "namespace" ELSE "notfound"
           fs == cfg.findstubs /\ cfg.stubs = "ext"       \* the stubs-only package is searched and exists
       IN IF base = "package" THEN [res |-> "package", stubs |-> (fs \/ cfg.stubs = "inpkg"), viastubs |-> FALSE]
          ELSE IF base = "namespace" THEN [res |-> "namespace", stubs |-> FALSE, viastubs |-> FALSE]
          ELSE IF fs THEN [res |-> "package", stubs |-> FALSE, viastubs |-> TRUE] ELSE NotFound

\* ---- Griffe: the agent ladder of _load_module_path -------------------------------------------------
Source(m) == FileOf(m) \in {"py", "pyi"}
Ladder(m, isNs, r, pkg) ==
  IF isNs THEN "create"
  ELSE IF Bug = "stubsDynamic" /\ r = "stub" THEN "inspect"
  ELSE IF Bug = "externalInspect" /\ pkg = "q" THEN "inspect"
  ELSE IF cfg.force THEN "inspect"
  ELSE IF Bug = "pydInspected" /\ FileOf(m) = "xc" THEN "inspect"       \* refusal by an enumerated suffix set that forgets one
  ELSE IF Bug = "allowFirst" /\ LoaderAllow THEN "inspect"
  ELSE IF Source(m) THEN "visit"
  ELSE IF LoaderAllow THEN "inspect"
  ELSE "refuse"

\* ---- helpers ---------------------------------------------------------------------------------------
Top == lstack[Len(lstack)]
Pkg == Top.pkg
Front(s) == SubSeq(s, 1, Len(s) - 1)
NoDyn == [target |-> None, ctx |-> None, t |-> None, q |-> <<>>, failed |-> FALSE, bad |-> None, raising |-> FALSE]
NewDyn(target, ctx) == [NoDyn EXCEPT !.target = target, !.ctx = ctx, !.t = target]
PathOk == sysPath = "orig" /\ savedPath = <<>> /\ "orig" \notin dirty
Ev(r) == lastev' = r

\* p's __init__ holds the reference to the external package; it exists in the tree iff p was visited
HolderIn(ag) == cfg.extstyle # None /\ ag["p"] = "visit"
\* merge_stubs keeps the module loaded second when p itself is a stub file (__init__.pyi merged with the
\* p-stubs package): the members are merged but the __all__ of p is lost, so the name alias is not exported
\* any more and resolve_module_aliases passes over it (the wildcard alias needs no export)
ExportsLost == cfg.file.p = "pyi" /\ cfg.findstubs /\ cfg.stubs = "ext"
Allowed == cfg.external = "true" \/ (cfg.external = "none" /\ cfg.extprivate)

\* continuation once every sub-module of the current package has been offered (_load_package)
AfterSubsPc(ag, ld) ==
  IF Top.res = "package" /\ Top.stubs
  THEN IF cfg.extstyle = "star" /\ cfg.extprivate /\ HolderIn(ag) /\ "q" \notin ld /\ Pkg = "p"
       THEN "StubWild"          \* expand_wildcards(top_module): external=None loads the private sibling only
       ELSE "StubPass"
  ELSE "LoadReturn"
NextSubPc(td, ag, ld) == IF td # {} THEN "Submodule" ELSE AfterSubsPc(ag, ld)

\* a module object of role r has been built for m
Built(m, r, ag) ==
  CASE r = "top" -> LET td == IF m = "p" /\ cfg.submodules THEN Kids ELSE {}
                        ld == loaded \cup {Pkg}
                    IN [pc |-> NextSubPc(td, ag, ld), loaded |-> ld, todo |-> td, members |-> members]
    [] r = "sub" -> [pc |-> NextSubPc(todo, ag, loaded), loaded |-> loaded, todo |-> todo, members |-> members \cup {m}]
    [] r = "stub" -> [pc |-> "LoadReturn", loaded |-> loaded, todo |-> todo, members |-> members]
    [] OTHER -> [pc |-> "LoadReturn", loaded |-> loaded \cup {Pkg}, todo |-> todo, members |-> members]      \* dyntop

\* continuation after resolve_aliases' wildcard expansion / after the main load
ResolvePc2(ag, ld) ==
  IF cfg.extstyle = "name" /\ HolderIn(ag) /\ ~ExportsLost /\ "q" \notin ld /\ Allowed /\ "q" \notin failures THEN "ResolveName" ELSE "Return"
ResolvePc1(ag, ld) ==
  IF cfg.extstyle = "star" /\ HolderIn(ag) /\ "q" \notin ld /\ Allowed THEN "ResolveWild" ELSE ResolvePc2(ag, ld)

\* ---- initial states: the case space ------------------------------------------------------------------
FaultsFor(kind, set) == IF kind \in {"py", "so", "sofile", "zip", "both"} THEN set ELSE {None}
NoDir == {"sofile", "zip", "missing"}
AllowOf(x) == x \in {"a-", "af"}
ForceOf(x) == x \in {"-f", "af"}
ResolveOf(x) == x \in {"true", "false", "none"}
ExternalOf(x) == CASE x \in {"true", "off+true"} -> "true" [] x \in {"false", "off+false"} -> "false" [] OTHER -> "none"
FindStubsOf(x) == x \in {"find", "find+ext"}
StubsOf(x) == CASE x = "inpkg" -> "inpkg" [] x \in {"ext", "find+ext"} -> "ext" [] OTHER -> "none"
InitCase ==
  /\ \E af \in AllowForce, rs \in Resolves, sm \in StubModes, lay \in Layouts, top \in Tops :
     \E ka \in (IF top \in NoDir THEN {"missing"} ELSE KidsA),
        kb \in (IF top \in NoDir THEN {"missing"} ELSE KidsB) :
     \E es \in (IF top \in {"py", "pyi"} THEN ExtStyles ELSE {None}) :
     \E ep \in (IF es = None THEN {FALSE} ELSE ExtPrivates), ek \in (IF es = None THEN {"missing"} ELSE ExtKinds) :
     \E bg \in Bugs, pm \in PathMuts, wk \in Walks, sb \in Submods, os \in ObjSpecs, en \in Entries, op \in OnPaths :
     \E fp \in FaultsFor(top, TopFaults), fa \in FaultsFor(ka, KidFaults), fb \in FaultsFor(kb, KidFaults),
        fq \in FaultsFor(IF es = None THEN "missing" ELSE ek, ExtFaults) :
       /\ (ka = "missing" /\ kb = "missing") => lay = "flat"          \* the layouts coincide
       /\ top \in NoDir => lay = "flat"
       /\ sm = "inpkg" => top = "py"
       /\ (en = "load_git") => (os \in {"name", "dotted"} /\ top # "zip" /\ ~op)      \* load_git: try_relative_path=False, string object paths
       /\ cfg = [allow |-> AllowOf(af), force |-> ForceOf(af), resolve |-> ResolveOf(rs), external |-> ExternalOf(rs),
                 findstubs |-> FindStubsOf(sm), stubs |-> StubsOf(sm), layout |-> lay,
                 file |-> [p |-> top, a |-> ka, b |-> kb],
                 extstyle |-> es, extprivate |-> ep, extkind |-> ek,
                 fault |-> [p |-> fp, a |-> fa, b |-> fb, q |-> fq], pathmut |-> pm, walk |-> wk, submodules |-> sb, objspec |-> os, entry |-> en, onpath |-> op, bug |-> bg]
InitRun ==
  /\ pc = (IF cfg.entry = "load_git" THEN "Checkout" ELSE "Construct") /\ wt = None /\ lstack = <<>> /\ cur = None /\ role = None /\ dyn = NoDyn /\ exc = None
  /\ sysPath = "orig" /\ savedPath = <<>> /\ dirty = {} /\ sysModules = {} /\ executed = {}
  /\ agent = [m \in Mods |-> None] /\ members = {} /\ loaded = {} /\ todo = {} /\ offered = {} /\ skipped = {}
  /\ nsparents = {} /\ failures = {} /\ outcome = None
  /\ lastev = [ev |-> "Init"]

Init == InitCase /\ InitRun

\* ---- GriffeLoader.__init__ ---------------------------------------------------------------------------
LoadExtensions ==
  /\ pc = "Construct"
  /\ pc' = IF cfg.entry = "attrs" THEN "SetOptions" ELSE "LoadMain"
  /\ Ev([ev |-> "LoadExtensions", touched |-> FALSE])            \* sys_path() without paths leaves sys.path alone
  /\ UNCHANGED <<cfg, wt, lstack, cur, role, dyn, exc, pathvars, impvars, treevars, outcome>>

SetOptions ==          \* loader.allow_inspection = ...; loader.force_inspection = ...   (public attributes of the loader)
  /\ pc = "SetOptions" /\ pc' = "LoadMain"
  /\ Ev([ev |-> "SetOptions", allow |-> cfg.allow, force |-> cfg.force])
  /\ UNCHANGED <<cfg, wt, lstack, cur, role, dyn, exc, pathvars, impvars, treevars, outcome>>

\* ---- GriffeLoader.load ------------------------------------------------------------------------------
Push(pkg, ctx) == lstack' = Append(lstack, [pkg |-> pkg, ctx |-> ctx, res |-> None, stubs |-> FALSE, viastubs |-> FALSE])
LoadMain ==
  /\ pc = "LoadMain"
  /\ Push("p", "main") /\ pc' = "FindSpec"
  /\ Ev([ev |-> "Load", pkg |-> "p"])
  /\ UNCHANGED <<cfg, wt, cur, role, dyn, exc, pathvars, impvars, treevars, outcome>>
ResolveExternal ==
  /\ pc \in {"StubWild", "ResolveWild", "ResolveName"}
  /\ Push("q", CASE pc = "StubWild" -> "stubwild" [] pc = "ResolveWild" -> "rwild" [] OTHER -> "rname")
  /\ pc' = "FindSpec"
  /\ Ev([ev |-> "ResolveExternal", pkg |-> "q"])
  /\ UNCHANGED <<cfg, wt, cur, role, dyn, exc, pathvars, impvars, treevars, outcome>>

FindSpec ==
  /\ pc = "FindSpec"
  /\ LET r == IF Pkg = "p" /\ cfg.objspec = "abspath" /\ cfg.file.p \in NoDir
              THEN [res |-> "nofile", stubs |-> FALSE, viastubs |-> FALSE]         \* _module_name_path: the path does not exist
              ELSE FindRes(Pkg) IN
     /\ Ev([ev |-> "FindSpec", pkg |-> Pkg, res |-> r.res, stubs |-> r.stubs, viastubs |-> r.viastubs])
     /\ lstack' = [lstack EXCEPT ![Len(lstack)] = [@ EXCEPT !.res = r.res, !.stubs = r.stubs, !.viastubs = r.viastubs]]
     /\ IF r.res = "nofile"
        THEN /\ pc' = "LoadRaise" /\ exc' = "FileNotFoundError"                   \* not a ModuleNotFoundError: escapes load() as it is
             /\ UNCHANGED <<cur, role, dyn>>
        ELSE IF r.res = "notfound"
        THEN IF MissStatic /\ Bug # "noReraise"
             THEN /\ pc' = "LoadRaise" /\ exc' = "ModuleNotFoundError"        \* `raise` in the except clause of load()
                  /\ UNCHANGED <<cur, role, dyn>>
             ELSE /\ pc' = "DynImport" /\ dyn' = NewDyn(Pkg, "top")            \* dynamic_import(top_module_name, search_paths)
                  /\ UNCHANGED <<cur, role, exc>>
        ELSE /\ pc' = "ChooseAgent" /\ cur' = (IF r.viastubs THEN "s" ELSE Pkg) /\ role' = "top"
             /\ UNCHANGED <<dyn, exc>>
     \* seeded defect probeOnMiss: a spec lookup of the dotted object path before re-raising imports the parent package
     /\ IF Bug = "probeOnMiss" /\ r.res = "notfound" /\ LoaderStatic /\ cfg.objspec = "dotted" /\ Pkg = "p" /\ PyKind("p") = "exec"
        THEN /\ executed' = executed \cup {"p"}
             /\ sysModules' = IF FaultOf("p") = None THEN sysModules \cup {"p"} ELSE sysModules
        ELSE UNCHANGED impvars
  /\ UNCHANGED <<cfg, wt, pathvars, treevars, outcome>>

\* ---- _load_module_path --------------------------------------------------------------------------------
ChooseAgent ==
  /\ pc = "ChooseAgent"
  /\ LET ag == Ladder(cur, role = "top" /\ Top.res = "namespace", role, Pkg)
         agent2 == [agent EXCEPT ![cur] = ag]
     IN /\ agent' = agent2
        /\ Ev([ev |-> "ChooseAgent", m |-> cur, agent |-> ag])
        /\ CASE ag = "create" ->
                  LET n == Built(cur, role, agent2) IN
                  /\ pc' = n.pc /\ loaded' = n.loaded /\ todo' = n.todo /\ members' = n.members
                  /\ UNCHANGED <<dyn, exc>>
             [] ag = "visit" -> /\ pc' = "Visit" /\ UNCHANGED <<dyn, exc, loaded, todo, members>>
             [] ag = "inspect" -> /\ pc' = "DynImport" /\ dyn' = NewDyn(PyTarget(cur), "inspect")
                                  /\ UNCHANGED <<exc, loaded, todo, members>>
             [] OTHER ->        \* LoadingError("Cannot load compiled module without inspection")
                  /\ IF role = "sub" THEN pc' = "SkipSubmodule" /\ exc' = "refused"
                                     ELSE pc' = "LoadRaise" /\ exc' = "LoadingError"
                  /\ UNCHANGED <<dyn, loaded, todo, members>>
  /\ UNCHANGED <<cfg, wt, lstack, cur, role, pathvars, impvars, offered, skipped, nsparents, failures, outcome>>

Visit ==
  /\ pc = "Visit"
  /\ LET n == Built(cur, role, agent) IN
     /\ pc' = n.pc /\ loaded' = n.loaded /\ todo' = n.todo /\ members' = n.members
  /\ Ev([ev |-> "Visit", m |-> cur])
  /\ UNCHANGED <<cfg, wt, lstack, cur, role, dyn, exc, pathvars, impvars, agent, offered, skipped, nsparents, failures, outcome>>

\* ---- _load_submodule -----------------------------------------------------------------------------------
Submodule ==
  /\ pc = "Submodule"
  /\ \E m \in todo :
       /\ \A k \in todo : Depth(m) <= Depth(k)                 \* sorted by depth; directory order is free
       /\ todo' = todo \ {m} /\ offered' = offered \cup {m}
       /\ cur' = m /\ role' = "sub"
       /\ Ev([ev |-> "Submodule", m |-> m])
       /\ IF Depth(m) = 2 /\ members \cap {"a", "as"} = {} /\ "a" \notin nsparents      \* p.get_member("a") raises KeyError
          THEN IF agent["p"] = "create"                        \* namespace package: intermediate namespace module
               THEN pc' = "CreateNsParent" /\ exc' = exc
               ELSE pc' = "SkipSubmodule" /\ exc' = "unimportable"   \* UnimportableModuleError
          ELSE pc' = "ChooseAgent" /\ exc' = exc
  /\ UNCHANGED <<cfg, wt, lstack, dyn, pathvars, impvars, agent, members, loaded, skipped, nsparents, failures, outcome>>

CreateNsParent ==
  /\ pc = "CreateNsParent"
  /\ nsparents' = nsparents \cup {"a"} /\ pc' = "ChooseAgent"
  /\ Ev([ev |-> "CreateNsParent", name |-> "a"])
  /\ UNCHANGED <<cfg, wt, lstack, cur, role, dyn, exc, pathvars, impvars, agent, members, loaded, todo, offered, skipped, failures, outcome>>

SkipSubmodule ==
  /\ pc = "SkipSubmodule"
  /\ skipped' = skipped \cup {cur}
  /\ pc' = NextSubPc(todo, agent, loaded) /\ exc' = None
  /\ Ev([ev |-> "SkipSubmodule", m |-> cur, why |-> IF exc = "unimportable" THEN "unimportable" ELSE "error"])
  /\ UNCHANGED <<cfg, wt, lstack, cur, role, dyn, pathvars, impvars, agent, members, loaded, todo, offered, nsparents, failures, outcome>>

\* ---- importer.dynamic_import / importer.sys_path / CPython import -----------------------------------------
DynImport ==
  /\ pc = "DynImport"
  /\ pc' = "EnterSysPath"
  /\ Ev([ev |-> "DynImport", m |-> dyn.target])
  /\ UNCHANGED <<cfg, wt, lstack, cur, role, dyn, exc, pathvars, impvars, treevars, outcome>>

EnterSysPath ==                                    \* old_path = sys.path; sys.path = [search paths]
  /\ pc = "EnterSysPath"
  /\ LET swap == ~(Bug = "skipSwapOnPath" /\ cfg.onpath)       \* always: also when sys.path already lists the search directories
     IN /\ savedPath' = Append(savedPath, sysPath)
        /\ sysPath' = IF swap THEN "search" ELSE sysPath
        /\ dirty' = IF swap THEN dirty \ {"search"} ELSE dirty            \* a fresh list every time
        /\ Ev([ev |-> "EnterSysPath", replaced |-> swap])
  /\ pc' = "TryImport"
  /\ UNCHANGED <<cfg, wt, lstack, cur, role, dyn, exc, impvars, treevars, outcome>>

TryImport ==                                       \* import_module(".".join(module_parts))
  /\ pc = "TryImport"
  /\ LET r == Settle(PyChain(dyn.t), sysModules) IN
     /\ sysModules' = r.sm
     /\ dyn' = [dyn EXCEPT !.q = r.q, !.failed = r.failed, !.bad = None]
  /\ pc' = "Importing"
  /\ Ev([ev |-> "TryImport", m |-> dyn.t])
  /\ UNCHANGED <<cfg, wt, lstack, cur, role, exc, pathvars, executed, treevars, outcome>>

Import ==                                          \* the body of a module starts executing
  /\ pc = "Importing" /\ ~dyn.failed /\ dyn.q # <<>>
  /\ LET m == Head(dyn.q) IN
     /\ executed' = executed \cup {m}
     /\ Ev([ev |-> "Import", m |-> m])
     \* the body touches sys.path first (before it can fail)
     /\ sysPath' = IF cfg.pathmut = "rebind" THEN "alien" ELSE sysPath
     /\ dirty' = IF cfg.pathmut = "inplace" THEN dirty \cup {sysPath} ELSE IF cfg.pathmut = "rebind" THEN dirty \ {"alien"} ELSE dirty
     /\ savedPath' = savedPath
     /\ IF FaultOf(m) # None
        THEN /\ sysModules' = sysModules \cup {m}           \* in sys.modules while its body runs
             /\ dyn' = [dyn EXCEPT !.failed = TRUE, !.bad = m, !.q = <<>>]
        ELSE LET r == Settle(Tail(dyn.q), sysModules \cup {m}) IN
             /\ sysModules' = r.sm
             /\ dyn' = [dyn EXCEPT !.q = r.q, !.failed = r.failed]
  /\ UNCHANGED <<cfg, wt, pc, lstack, cur, role, exc, treevars, outcome>>

ImportOk ==
  /\ pc = "Importing" /\ ~dyn.failed /\ dyn.q = <<>>
  /\ Ev([ev |-> "ImportOk", m |-> dyn.t])
  /\ pc' = "ExitSysPath"
  \* a parent was importable but the attribute lookup of the remaining parts fails: ImportError inside the with block
  /\ dyn' = [dyn EXCEPT !.raising = (dyn.t # dyn.target)]
  /\ UNCHANGED <<cfg, wt, lstack, cur, role, exc, pathvars, impvars, treevars, outcome>>

ImportFail ==                                      \* except BaseException: RuntimeError, SystemExit, ModuleNotFoundError alike
  /\ pc = "Importing" /\ dyn.failed
  /\ Ev([ev |-> "ImportFail", m |-> dyn.t])
  /\ sysModules' = sysModules \ {dyn.bad}          \* CPython removes the module whose body failed; its parents stay
  /\ IF PyParent(dyn.t) # None
     THEN /\ pc' = "TryImport" /\ dyn' = [dyn EXCEPT !.t = PyParent(dyn.t), !.failed = FALSE, !.bad = None]
     ELSE /\ pc' = "ExitSysPath" /\ dyn' = [dyn EXCEPT !.raising = TRUE, !.failed = FALSE, !.bad = None]     \* raise ImportError
  /\ UNCHANGED <<cfg, wt, lstack, cur, role, exc, pathvars, executed, treevars, outcome>>

ExitSysPath ==                                     \* finally: sys.path = old_path
  /\ pc = "ExitSysPath"
  /\ LET restore == /\ ~(Bug = "noFinally" /\ dyn.raising)
                    /\ ~(Bug = "guardedRestore" /\ sysPath # "search")     \* "only undo our own change"
         np == IF restore THEN savedPath[Len(savedPath)] ELSE sysPath
     IN /\ sysPath' = np /\ savedPath' = Front(savedPath) /\ dirty' = dirty
        /\ Ev([ev |-> "ExitSysPath", restored |-> restore, by |-> IF dyn.raising THEN "exception" ELSE "normal"])
  /\ pc' = IF dyn.raising THEN "DynImportFail" ELSE "DynImportOk"
  /\ UNCHANGED <<cfg, wt, lstack, cur, role, dyn, exc, impvars, treevars, outcome>>

DynImportOk ==
  /\ pc = "DynImportOk"
  /\ Ev([ev |-> "DynImportOk", m |-> dyn.target])
  \* load(): the dynamically imported top-level module has a __path__ (package in a zip archive): a Package is built from
  \* it and loaded through the ladder; otherwise (single-file compiled module) it is inspected as it is
  /\ IF dyn.ctx = "top" /\ FileOf(dyn.target) = "zip"
     THEN /\ pc' = "ChooseAgent" /\ cur' = dyn.target /\ role' = "top"
          /\ lstack' = [lstack EXCEPT ![Len(lstack)] = [@ EXCEPT !.res = "package"]]
     ELSE /\ pc' = IF dyn.ctx = "top" THEN "InspectTop" ELSE "Inspected"
          /\ UNCHANGED <<lstack, cur, role>>
  /\ dyn' = NoDyn
  /\ UNCHANGED <<cfg, wt, exc, pathvars, impvars, treevars, outcome>>

DynImportFail ==
  /\ pc = "DynImportFail"
  /\ Ev([ev |-> "DynImportFail", m |-> dyn.target])
  /\ IF dyn.ctx = "top" THEN pc' = "LoadRaise" /\ exc' = "ImportError"      \* escapes load() as it is
                        ELSE pc' = "InspectFail" /\ exc' = "ImportError"
  /\ dyn' = NoDyn
  /\ UNCHANGED <<cfg, wt, lstack, cur, role, pathvars, impvars, treevars, outcome>>

\* ---- _inspect_module ----------------------------------------------------------------------------------
InspectTop ==          \* load(): the dynamically imported top-level module has no __path__: inspect it as it is
  /\ pc = "InspectTop"
  /\ cur' = Pkg /\ role' = "dyntop"
  /\ pc' = "DynImport" /\ dyn' = NewDyn(Pkg, "inspect")
  /\ Ev([ev |-> "InspectTop", m |-> Pkg])
  /\ UNCHANGED <<cfg, wt, lstack, exc, pathvars, impvars, treevars, outcome>>

\* Inspector.inspect walks the members of the imported module object (inspect.getmembers): a lazy attribute whose
\* resolution fails raises out of the walk, after the import itself succeeded and sys_path was left
WalkFails(m) == cfg.walk \in {"dep", "exit"} /\ PyKind(PyTarget(m)) = "exec"

WalkFail ==
  /\ pc = "Inspected" /\ WalkFails(cur)
  /\ Ev([ev |-> "InspectFail", m |-> cur])
  \* ModuleNotFoundError is an ImportError; _inspect_module maps SystemExit to ImportError
  /\ exc' = IF cfg.walk = "dep" THEN "ModuleNotFoundError" ELSE "ImportError"
  /\ pc' = IF role = "dyntop" THEN "LoadRaise" ELSE "WrapError"
  \* seeded defect walkNoFinally: the walk runs with sys.path rebound by hand and the restore line is skipped by the exception
  /\ sysPath' = IF Bug = "walkNoFinally" THEN "search" ELSE sysPath
  /\ UNCHANGED <<cfg, wt, lstack, cur, role, dyn, savedPath, dirty, impvars, treevars, outcome>>

Inspected ==
  /\ pc = "Inspected" /\ ~WalkFails(cur)
  /\ LET n == Built(cur, role, agent) IN
     /\ pc' = n.pc /\ loaded' = n.loaded /\ todo' = n.todo /\ members' = n.members
  /\ Ev([ev |-> "Inspected", m |-> cur])
  /\ UNCHANGED <<cfg, wt, lstack, cur, role, dyn, exc, pathvars, impvars, agent, offered, skipped, nsparents, failures, outcome>>

InspectFail ==
  /\ pc = "InspectFail"
  /\ Ev([ev |-> "InspectFail", m |-> cur])
  /\ pc' = IF role = "dyntop" THEN "LoadRaise" ELSE "WrapError"
  /\ UNCHANGED <<cfg, wt, lstack, cur, role, dyn, exc, pathvars, impvars, treevars, outcome>>

WrapError ==           \* _load_module: except ImportError -> LoadingError
  /\ pc = "WrapError"
  /\ Ev([ev |-> "WrapError", m |-> cur, frm |-> exc, to |-> "LoadingError"])
  /\ exc' = "LoadingError"
  /\ pc' = IF role = "sub" THEN "SkipSubmodule" ELSE "LoadRaise"          \* _load_submodule swallows it, load() does not
  /\ UNCHANGED <<cfg, wt, lstack, cur, role, dyn, pathvars, impvars, treevars, outcome>>

\* ---- _load_package: the stubs pass ------------------------------------------------------------------------
StubPass ==
  /\ pc = "StubPass"
  /\ LET ag == Ladder("s", FALSE, "stub", Pkg)
         agent2 == [agent EXCEPT !["s"] = ag]
     IN /\ agent' = agent2 /\ cur' = "s" /\ role' = "stub"
        /\ Ev([ev |-> "ChooseAgent", m |-> "s", agent |-> ag])
        /\ IF ag = "visit" THEN pc' = "Visit" /\ dyn' = dyn
                           ELSE pc' = "DynImport" /\ dyn' = NewDyn("p", "inspect")
  /\ UNCHANGED <<cfg, wt, lstack, exc, pathvars, impvars, members, loaded, todo, offered, skipped, nsparents, failures, outcome>>

\* ---- the end of a GriffeLoader.load call ------------------------------------------------------------------------
Pop == lstack' = Front(lstack)
\* _post_load: modules_collection.get_member(obj_path).  "p.X" exists when p was visited (every source / stub defines X) or
\* inspected from a module that really ran; a namespace module (created, or imported from a directory without code) has no X
ObjectPresent ==
  \/ agent["p"] = "visit" \/ agent["s"] = "visit"
  \/ (PyKind("p") = "exec" /\ "p" \in sysModules /\ (agent["p"] = "inspect" \/ agent["s"] = "inspect" \/ Top.res = "notfound"))
MissingObject == Top.ctx = "main" /\ cfg.objspec = "dotted" /\ ~ObjectPresent

LoadMissing ==         \* KeyError out of _post_load
  /\ pc = "LoadReturn" /\ MissingObject
  /\ Ev([ev |-> "LoadRaise", pkg |-> Pkg, exc |-> "KeyError", path_ok |-> PathOk])
  /\ Pop /\ pc' = "Raise" /\ exc' = "KeyError"
  /\ UNCHANGED <<cfg, wt, cur, role, dyn, pathvars, impvars, treevars, outcome>>

LoadReturn ==
  /\ pc = "LoadReturn" /\ ~MissingObject
  /\ Ev([ev |-> "LoadReturn", pkg |-> Pkg, path_ok |-> PathOk])
  /\ Pop
  /\ pc' = CASE Top.ctx = "main" -> (IF cfg.resolve THEN ResolvePc1(agent, loaded) ELSE "Return")
             [] Top.ctx = "stubwild" -> "StubPass"
             [] Top.ctx = "rwild" -> ResolvePc2(agent, loaded)
             [] OTHER -> "Return"
  /\ UNCHANGED <<cfg, wt, cur, role, dyn, exc, pathvars, impvars, treevars, outcome>>

LoadRaise ==
  /\ pc = "LoadRaise"
  /\ Ev([ev |-> "LoadRaise", pkg |-> Pkg, exc |-> exc, path_ok |-> PathOk])
  /\ Pop
  /\ IF Top.ctx = "main" THEN pc' = "Raise" /\ exc' = exc /\ failures' = failures
     ELSE \* except (ImportError, LoadingError) in expand_wildcards / resolve_module_aliases
          /\ exc' = None
          /\ failures' = IF Top.ctx = "rname" THEN failures \cup {"q"} ELSE failures
          /\ pc' = CASE Top.ctx = "stubwild" -> "StubPass"
                     [] Top.ctx = "rwild" -> ResolvePc2(agent, loaded)
                     [] OTHER -> "Return"
  /\ UNCHANGED <<cfg, wt, cur, role, dyn, pathvars, impvars, agent, members, loaded, todo, offered, skipped, nsparents, outcome>>

\* ---- load_git: tmp_worktree around the same protocol -----------------------------------------------------------------
Checkout ==
  /\ pc = "Checkout" /\ wt' = "present" /\ pc' = "Construct"
  /\ Ev([ev |-> "Checkout"])
  /\ UNCHANGED <<cfg, lstack, cur, role, dyn, exc, pathvars, impvars, treevars, outcome>>
Cleanup ==              \* the finally of tmp_worktree, whatever load() did
  /\ pc \in {"Return", "Raise"} /\ wt = "present" /\ wt' = "removed"
  /\ Ev([ev |-> "Cleanup", path_ok |-> PathOk])
  /\ UNCHANGED <<cfg, ctl, pathvars, impvars, treevars, outcome>>

Return ==
  /\ pc = "Return" /\ wt # "present"
  /\ outcome' = "Return" /\ pc' = "Done"
  /\ Ev([ev |-> "Return", path_ok |-> PathOk])
  /\ UNCHANGED <<cfg, wt, lstack, cur, role, dyn, exc, pathvars, impvars, treevars>>
Raise ==
  /\ pc = "Raise" /\ wt # "present"
  /\ outcome' = exc /\ pc' = "Done"
  /\ Ev([ev |-> "Raise", exc |-> exc, path_ok |-> PathOk])
  /\ UNCHANGED <<cfg, wt, lstack, cur, role, dyn, exc, pathvars, impvars, treevars>>

Finished == pc = "Done" /\ UNCHANGED vars           \* so that TLC's deadlock check means: the protocol never gets stuck

Step ==
  \/ LoadExtensions \/ LoadMain \/ ResolveExternal \/ FindSpec \/ ChooseAgent \/ Visit
  \/ Submodule \/ CreateNsParent \/ SkipSubmodule
  \/ DynImport \/ EnterSysPath \/ TryImport \/ Import \/ ImportOk \/ ImportFail \/ ExitSysPath
  \/ DynImportOk \/ DynImportFail \/ InspectTop \/ Inspected \/ InspectFail \/ WrapError \/ StubPass
  \/ LoadReturn \/ LoadMissing \/ LoadRaise \/ Return \/ Raise \/ Checkout \/ Cleanup \/ SetOptions \/ WalkFail
Next == Step \/ Finished
Spec == Init /\ [][Next]_vars

\* ---- the property ------------------------------------------------------------------------------------------
\* (1) with dynamic analysis disallowed nothing of the package is executed or enters sys.modules - in EVERY state
NoExecutionWhenStatic == Static => (executed = {} /\ sysModules = {})
\* ... and sys.path is never even rebound
NoPathSwapWhenStatic == Static => (sysPath = "orig" /\ savedPath = <<>> /\ dirty = {})
\* (2) compiled modules are skipped, never imported, when inspection is disallowed
CompiledSkippedWhenStatic ==
  Static => \A m \in Mods : Compiled(m) => /\ agent[m] \in {None, "refuse", "create"}
                                           /\ m \notin executed
                                           /\ (pc = "Done" /\ m \in offered) => m \in skipped
\* (2b) the ladder: a module whose source is available is inspected only when inspection is forced
\*      ("allow_inspection: ... when visiting them is not possible"); it may still be *imported* as the
\*      parent of a compiled sub-module that is inspected
SourceVisitedUnlessForced == ~cfg.force => \A m \in Mods : Source(m) => agent[m] \in {None, "visit"}
\* (3) whatever the outcome, at the end sys.path is bound to the original list and nothing is left saved
\*     - the same object (identity) with the same content ("orig" was never modified in place)
PathRestoredAtEnd == pc = "Done" => (sysPath = "orig" /\ savedPath = <<>> /\ "orig" \notin dirty)
\* ... also at the end of every nested load (external packages) and whenever no dynamic import is active
PathRestoredOutsideImport == (pc \in {"LoadReturn", "LoadRaise", "Return", "Raise", "FindSpec", "ChooseAgent", "Visit", "Submodule"}) => PathOk
\* (4) EnterSysPath / ExitSysPath are balanced: never nested, the replacement is in force exactly inside
Balanced == /\ Len(savedPath) <= 1
            /\ (savedPath = <<>>) <=> (sysPath = "orig")
            /\ (savedPath # <<>>) => (savedPath[1] = "orig" /\ pc \in {"TryImport", "Importing", "ExitSysPath"})
\* code of the package runs only inside the with-block of sys_path (action property)
ExecOnlyUnderSwap == [][executed' # executed => (sysPath # "orig" /\ savedPath # <<>> /\ ~Static)]_vars
\* (5) the only ways out: the documented exception classes; SystemExit never escapes
OutcomeLegal ==
  /\ outcome \in {None, "Return", "ModuleNotFoundError", "ImportError", "LoadingError", "FileNotFoundError", "KeyError"}
  /\ (outcome = "KeyError") => cfg.objspec = "dotted"              \* the object path names nothing in the loaded package
  /\ (outcome = "ModuleNotFoundError") => (MissStatic \/ cfg.walk = "dep")      \* ... or a lazy member of a dynamically found top-level module
  \*         \* re-raised iff inspection is disallowed
  /\ (outcome = "FileNotFoundError") => (cfg.objspec = "abspath" /\ executed = {})    \* documented for Path arguments
  /\ (Static /\ pc = "Done" /\ FindRes("p").res = "notfound") => outcome \in {"ModuleNotFoundError", "FileNotFoundError"}
TypeOK ==
  /\ sysPath \in {"orig", "search", "alien"} /\ dirty \subseteq {"orig", "search", "alien"} /\ sysModules \subseteq {"p", "a", "b", "q"} /\ executed \subseteq {"p", "a", "b", "q"}
  /\ Len(lstack) <= 2 /\ skipped \subseteq offered /\ members \subseteq offered

\* seeded defects of the model: each one must be caught by a clause (LoadProtocol_bugs.cfg, run with -continue)
CleanHolds == Bug = "none" => /\ NoExecutionWhenStatic /\ NoPathSwapWhenStatic /\ CompiledSkippedWhenStatic /\ SourceVisitedUnlessForced
                              /\ PathRestoredAtEnd /\ PathRestoredOutsideImport /\ Balanced /\ OutcomeLegal
CatchAllowFirst == Bug = "allowFirst" => SourceVisitedUnlessForced
CatchNoReraise == Bug = "noReraise" => NoExecutionWhenStatic
CatchNoFinally == Bug = "noFinally" => (Balanced /\ PathRestoredAtEnd)
CatchStubsDynamic == Bug = "stubsDynamic" => NoExecutionWhenStatic
CatchExternalInspect == Bug = "externalInspect" => NoExecutionWhenStatic
CatchPydInspected == Bug = "pydInspected" => (NoExecutionWhenStatic /\ CompiledSkippedWhenStatic)
CatchGuardedRestore == Bug = "guardedRestore" => PathRestoredAtEnd
CatchProbeOnMiss == Bug = "probeOnMiss" => NoExecutionWhenStatic
CatchGitDropsAllow == Bug = "gitDropsAllow" => (NoExecutionWhenStatic /\ CompiledSkippedWhenStatic)
CatchCachedFlag == Bug = "cachedFlag" => NoExecutionWhenStatic
CatchSkipSwapOnPath == Bug = "skipSwapOnPath" => PathRestoredAtEnd
CatchWalkNoFinally == Bug = "walkNoFinally" => PathRestoredAtEnd
WorktreeRemoved == pc = "Done" => wt # "present"

\* every terminal state is printed: one implementation test per case (gverif/props/c15.py replays it)
EmitCase ==
  pc = "Done" => PrintT(<<"CASE", ToJson([cfg |-> cfg, outcome |-> outcome, executed |-> executed, sysmodules |-> sysModules,
                                          agent |-> agent, skipped |-> skipped, offered |-> offered, loaded |-> loaded,
                                          nsparents |-> nsparents])>>)
=============================================================================
